package samplebuilder

// C31 — SampleBuilder emits only well-formed samples, in order, each once.
//
// Bounded exhaustive exploration of the real SampleBuilder: for every small
// stream shape (frames x packets per frame), every delivery order within a
// displacement bound, every single loss and every single duplication, with
// wrap-around starts, several maxLate / WithMaxTimeDelay settings and three Pop
// policies, the real Push/Pop/Flush are driven and every emitted sample is
// decoded back into the packets it was built from (every packet carries a
// unique id in its payload; the scripted depacketizer strips only the head flag).
//
// Oracle (from the property statement only):
//   S1 a sample's data is the concatenation of the depacketized payloads of a run
//      of pushed packets with consecutive sequence numbers and one timestamp,
//      the first of which is a partition head;
//   S2 samples come out in sequence-number order;
//   S3 no packet is used by two samples;
//   L  loss-free stream reordered within maxLate (see c31Within) => after Flush
//      every frame has been emitted complete.

import (
	"encoding/json"
	"fmt"
	"reflect"
	"sort"
	"sync"
	"testing"
	"time"
	"unsafe"

	"github.com/pion/rtp"
	"github.com/pion/webrtc/v4/internal/verif/vkit"
	"github.com/pion/webrtc/v4/pkg/media"
)

// c31Depack is the scripted depacketizer: payload byte 0 is the head flag, the
// tail is the marker bit, the media is everything after byte 0.
type c31Depack struct{}

func (c31Depack) Unmarshal(p []byte) ([]byte, error) {
	if len(p) < 1 {
		return nil, fmt.Errorf("c31: empty payload")
	}

	return p[1:], nil
}
func (c31Depack) IsPartitionHead(p []byte) bool         { return len(p) > 0 && p[0] == 1 }
func (c31Depack) IsPartitionTail(m bool, _ []byte) bool { return m }

const (
	c31TsStep     = 10   // RTP ticks between frames
	c31SampleRate = 1000 // so WithMaxTimeDelay(ms) == ticks
)

// c31Case is one fully determined execution (also the replay format).
type c31Case struct {
	Sizes    []int    `json:"sizes"`     // packets per frame
	SeqStart uint16   `json:"seq_start"` // sequence number of stream position 0
	TsStart  uint32   `json:"ts_start"`  // timestamp of frame 0
	MaxLate  uint16   `json:"max_late"`
	DelayMs  int      `json:"max_time_delay_ms"` // 0 = option not used
	Pop      int      `json:"pop_policy"`        // 0 one Pop after each Push, 1 Pop until nil after each Push, 2 Pop only after Flush
	Marker   bool     `json:"marker_on_tail"`
	AllHeads bool     `json:"every_packet_is_partition_head"` // false: only a frame's first packet is a head (VP8-like); true: every packet is (H264 single NALUs, Opus)
	Delivery []int    `json:"delivery"`                       // stream positions in push order
	Kind     string   `json:"kind"`                           // reorder | loss | dup
	Trace    []string `json:"trace,omitempty"`
}

type c31Stream struct {
	n          int
	frameOf    []int // position -> frame
	frameStart []int // frame -> first position
	frameEnd   []int // frame -> one past last position
}

func c31NewStream(sizes []int) *c31Stream {
	s := &c31Stream{}
	for f, k := range sizes {
		s.frameStart = append(s.frameStart, s.n)
		for i := 0; i < k; i++ {
			s.frameOf = append(s.frameOf, f)
		}
		s.n += k
		s.frameEnd = append(s.frameEnd, s.n)
	}

	return s
}

// c31Within decides the premise of the liveness clause, "loss-free stream
// reordered within maxLate", in its most conservative reading: at every moment
// the distance from the first packet of the earliest frame that is not yet
// completely pushed to the highest sequence number pushed so far is smaller than
// maxLate (nothing the builder still needs is more than maxLate-1 sequence
// numbers behind the newest packet). loose is the weaker reading that measures
// from the lowest missing packet instead of from its frame's first packet.
func c31Within(st *c31Stream, delivery []int, maxLate int) (strict, loose bool) {
	strict, loose = true, true
	pushed := make([]bool, st.n)
	high := -1
	for _, p := range delivery {
		pushed[p] = true
		if p > high {
			high = p
		}
		low := 0
		for low < st.n && pushed[low] {
			low++
		}
		if low >= st.n {
			continue // everything has been pushed
		}
		if low < high && high-low >= maxLate {
			loose = false
		}
		// the earliest frame that is not complete yet is the one containing `low`
		if high-st.frameStart[st.frameOf[low]] >= maxLate {
			strict = false
		}
	}

	return strict, loose
}

// c31Worker owns one real SampleBuilder that is reset between cases (the struct
// holds two 64 Ki-entry arrays; allocating one per case would dominate the run).
type c31Worker struct {
	sb                 *SampleBuilder
	states             map[uint64]struct{}
	classes            map[int]struct{} // non-trivial case classes reached (see c31ClassName)
	outcomes           map[int]struct{} // number of samples emitted by a case
	kinds              [3]int64
	trans              int64
	runs               int
	tb                 testing.TB
	premise            int64
	looseLost, dupLost int64
	startLost          int64
	pushed, used, emit []bool
	npush              []int  // pushes of a position so far
	highBefore         []int  // highest position pushed before the latest push of a position (-1: none)
	usedNonFirst       []bool // the sample that used the position did not start with it
}

func c31NewWorker(tb testing.TB) *c31Worker {
	return &c31Worker{
		states: map[uint64]struct{}{}, classes: map[int]struct{}{}, outcomes: map[int]struct{}{}, tb: tb,
		pushed: make([]bool, 64), used: make([]bool, 64), emit: make([]bool, 64),
		npush: make([]int, 64), highBefore: make([]int, 64), usedNonFirst: make([]bool, 64),
	}
}

var c31Kinds = []string{"reorder", "loss", "dup"}

func c31KindIndex(k string) int {
	for i, s := range c31Kinds {
		if s == k {
			return i
		}
	}

	return 0
}

// class of a case: kind x maxLate x delay class x pop policy x marker.
func c31ClassOf(cs *c31Case) int {
	d := 0
	if cs.DelayMs > 0 {
		d = 1
		if cs.DelayMs >= 1000 {
			d = 2
		}
	}
	m := 0
	if cs.Marker {
		m = 1
	}

	h := 0
	if cs.AllHeads {
		h = 1
	}

	return ((((c31KindIndex(cs.Kind)*16+int(cs.MaxLate))*3+d)*3+cs.Pop)*2+m)*2 + h
}

func c31ClassName(k int) string {
	h := k % 2
	k /= 2
	m := k % 2
	k /= 2
	pop := k % 3
	k /= 3
	d := k % 3
	k /= 3
	ml := k % 16
	k /= 16

	return fmt.Sprintf("%s|maxLate=%d|delay=%s|pop=%d|marker=%d|allheads=%d", c31Kinds[k], ml, []string{"none", "short", "long"}[d], pop, m, h)
}

func (w *c31Worker) reset(cs *c31Case) *SampleBuilder {
	if w.sb == nil {
		w.sb = New(cs.MaxLate, c31Depack{}, c31SampleRate)
	}
	sb := w.sb
	w.runs++
	for _, base := range []uint16{0, 65534, 65531} {
		for d := 0; d < 192; d++ {
			sb.buffer[uint16(int(base)-64+d)] = nil //nolint:gosec
		}
	}
	for i := 0; i < 128; i++ {
		sb.preparedSamples[i] = nil
	}
	if w.runs%4096 == 0 {
		// full scan: nothing may be left outside the windows cleared above
		for i := range sb.buffer {
			if sb.buffer[i] != nil || sb.preparedSamples[i] != nil {
				vkit.Fatalf(w.tb, "c31: builder entry %d outside the reset window survived a case", i)
			}
		}
	}
	// every other field back to its zero value (by reflection, so that a field this file does not
	// know about cannot carry state from one case into the next), then what New() sets
	v := reflect.ValueOf(sb).Elem()
	for i := 0; i < v.NumField(); i++ {
		name := v.Type().Field(i).Name
		if name == "buffer" || name == "preparedSamples" {
			continue
		}
		f := v.Field(i)
		reflect.NewAt(f.Type(), unsafe.Pointer(f.UnsafeAddr())).Elem().Set(reflect.Zero(f.Type()))
	}
	sb.maxLate = cs.MaxLate
	sb.depacketizer = c31Depack{}
	sb.sampleRate = c31SampleRate
	// the application recycles a packet's buffer as soon as the builder releases it (that is what the
	// release handler is for): a sample must not share memory with a released packet
	sb.packetReleaseHandler = func(p *rtp.Packet) {
		for i := range p.Payload {
			p.Payload[i] = 0xEE
		}
	}
	if cs.DelayMs > 0 {
		WithMaxTimeDelay(time.Duration(cs.DelayMs) * time.Millisecond)(sb)
	}

	return sb
}

func (w *c31Worker) state(sb *SampleBuilder, cs *c31Case) {
	rel := func(x uint16) uint64 { return uint64(uint8(x - cs.SeqStart)) } //nolint:gosec
	var mask uint64
	for d := 0; d < 16; d++ {
		if sb.buffer[cs.SeqStart+uint16(d)-2] != nil { //nolint:gosec
			mask |= 1 << d
		}
	}
	k := rel(sb.filled.head) | rel(sb.filled.tail)<<8 | rel(sb.active.head)<<16 | rel(sb.active.tail)<<24 |
		uint64(uint8(sb.prepared.tail-sb.prepared.head))<<32 | uint64(uint8(sb.droppedPackets))<<40 | mask<<48 //nolint:gosec
	w.states[k] = struct{}{}
	w.trans++
}

// c31Run executes one case against the real builder and applies the oracle.
func c31Run(c *vkit.Check, w *c31Worker, cs *c31Case, trace bool) {
	st := c31NewStream(cs.Sizes)
	sb := w.reset(cs)
	c.Eval()

	var (
		pushed    = w.pushed[:st.n]
		used      = w.used[:st.n]
		lastFirst = -1
		emitted   = w.emit[:len(cs.Sizes)] // frame emitted complete
		tr        []string
		nSamples  int
		failed    bool
	)
	for i := range pushed {
		pushed[i], used[i] = false, false
		w.npush[i], w.highBefore[i], w.usedNonFirst[i] = 0, -1, false
	}
	for i := range emitted {
		emitted[i] = false
	}
	w.kinds[c31KindIndex(cs.Kind)]++
	// Violation key = kind of breach + the pattern the check can observe about it (see the call
	// sites): the genuine defects of the unchanged tree each have a narrow pattern, and a key names
	// exactly that pattern so that a different defect with the same kind of breach is not hidden by a
	// known-findings entry.
	inOrder := true
	for i := 1; i < len(cs.Delivery); i++ {
		if cs.Delivery[i] < cs.Delivery[i-1] {
			inOrder = false
		}
	}
	high := -1 // highest position pushed so far
	fail := func(kind, what string) {
		failed = true
		rc := *cs
		rc.Trace = tr
		c.Violation(kind, what+" — case "+vkit.Short(cs), rc)
	}
	// lateness of the latest push of position p: how far the stream had already advanced past it
	lateness := func(p int) string {
		l := w.highBefore[p] - p
		switch {
		case l < 0:
			return "not-late"
		case l < int(cs.MaxLate):
			return "late<maxLate"
		}

		return "late>=maxLate"
	}
	check := func(s *media.Sample) {
		nSamples++
		d := s.Data
		if len(d) == 0 || len(d)%2 != 0 {
			fail("malformed-data", fmt.Sprintf("sample data %x is not a concatenation of depacketized payloads", d))

			return
		}
		var ids []int
		for i := 0; i < len(d); i += 2 {
			p := int(d[i])
			if p >= st.n || d[i+1] != 0xC0|byte(st.frameOf[p]) {
				fail("malformed-data", fmt.Sprintf("sample data %x contains bytes of no pushed packet", d))

				return
			}
			ids = append(ids, p)
		}
		if trace {
			tr = append(tr, fmt.Sprintf("  -> sample packets=%v ts=%d", ids, s.PacketTimestamp))
		}
		for i, p := range ids {
			if !pushed[p] {
				fail("malformed-data", fmt.Sprintf("sample %v uses packet %d that was not pushed yet", ids, p))

				return
			}
			if i > 0 && p != ids[i-1]+1 {
				fail("not-contiguous", fmt.Sprintf("sample %v is not a run of consecutive sequence numbers", ids))

				return
			}
			if st.frameOf[p] != st.frameOf[ids[0]] {
				fail("mixed-timestamps", fmt.Sprintf("sample %v mixes packets of different RTP timestamps", ids))

				return
			}
		}
		if !cs.AllHeads && ids[0] != st.frameStart[st.frameOf[ids[0]]] {
			fail("no-head", fmt.Sprintf("sample %v does not start at a partition head", ids))

			return
		}
		for _, p := range ids {
			if used[p] {
				// cause=repushed: the packet had been pushed twice (duplicate); cause=leftover: it was
				// pushed once and still used twice
				// pushed once or twice (and how late the second push was); where the packet sat in the
				// sample that used it first, and where it sits in this one
				cause := "pushed-once"
				if w.npush[p] > 1 {
					cause = "pushed-twice:" + lateness(p)
				}
				if w.usedNonFirst[p] {
					cause += "|was=inner"
				} else {
					cause += "|was=first"
				}
				if p == ids[0] {
					cause += "|now=first"
				} else {
					cause += "|now=inner"
				}
				fail("packet-reused|"+cause, fmt.Sprintf("packet %d contributes to two samples (second: %v)", p, ids))

				return
			}
		}
		for i, p := range ids {
			used[p] = true
			w.usedNonFirst[p] = i > 0
		}
		if ids[0] <= lastFirst {
			fail("out-of-order|"+lateness(ids[0]), fmt.Sprintf("sample %v emitted after a sample starting at packet %d", ids, lastFirst))

			return
		}
		lastFirst = ids[0]
		f := st.frameOf[ids[0]]
		if len(ids) == st.frameEnd[f]-st.frameStart[f] {
			emitted[f] = true
		}
	}
	pop := func() bool {
		s := sb.Pop()
		w.state(sb, cs)
		if trace {
			tr = append(tr, fmt.Sprintf("Pop nil=%v filled=%v active=%v", s == nil, sb.filled, sb.active))
		}
		if s == nil {
			return false
		}
		check(s)

		return true
	}

	func() {
		defer func() {
			if r := recover(); r != nil {
				failed = true
				c.Violation("panic|"+vkit.PanicSite(), fmt.Sprintf("panic in code under test: %v — case %s", r, vkit.Short(cs)), *cs)
			}
		}()
		for _, p := range cs.Delivery {
			f := st.frameOf[p]
			head := byte(0)
			if p == st.frameStart[f] || cs.AllHeads {
				head = 1
			}
			pkt := &rtp.Packet{
				Header: rtp.Header{
					Version:        2,
					SequenceNumber: cs.SeqStart + uint16(p),          //nolint:gosec
					Timestamp:      cs.TsStart + uint32(f)*c31TsStep, //nolint:gosec
					Marker:         cs.Marker && p == st.frameEnd[f]-1,
				},
				Payload: []byte{head, byte(p), 0xC0 | byte(f)},
			}
			sb.Push(pkt)
			pushed[p] = true
			w.npush[p]++
			w.highBefore[p] = high
			if p > high {
				high = p
			}
			w.state(sb, cs)
			if trace {
				tr = append(tr, fmt.Sprintf("Push pos=%d seq=%d filled=%v active=%v", p, pkt.SequenceNumber, sb.filled, sb.active))
			}
			switch cs.Pop {
			case 0:
				pop()
			case 1:
				for k := 0; k < 4*st.n+4 && pop() && !failed; k++ {
				}
			}
			if failed {
				return
			}
		}
		// Flush's loop condition is `(tooOld(..) || count > maxLate || flush) && hasData`: with flush set
		// the value of tooOld cannot matter, and tooOld has no effect of its own. It is switched off for
		// the duration of the call only because a cursor overshoot on the unchanged tree makes that loop
		// run 65 535 times, each time with a 65 536-entry tooOld scan (0.6 s per case).
		mlt := sb.maxLateTimestamp
		sb.maxLateTimestamp = 0
		sb.Flush()
		sb.maxLateTimestamp = mlt
		w.state(sb, cs)
		if trace {
			tr = append(tr, fmt.Sprintf("Flush filled=%v active=%v", sb.filled, sb.active))
		}
		k := 0
		for pop() && !failed {
			if k++; k > 4*st.n+4 {
				fail("pop-never-nil", "Pop keeps returning samples after Flush")

				return
			}
		}
	}()
	c.Validated()
	if failed {
		return
	}
	w.outcomes[nSamples] = struct{}{}
	if nSamples > 0 {
		w.classes[c31ClassOf(cs)] = struct{}{}
	}

	// liveness clause
	if !cs.Marker || cs.Kind == "loss" || (cs.DelayMs > 0 && cs.DelayMs < 1000) {
		return
	}
	strict, loose := c31Within(st, cs.Delivery, int(cs.MaxLate))
	// A builder can only synchronise on the first packet it is given: frames that begin before
	// that packet are not demanded (whether they come out is counted, not judged).
	missing := -1
	for f := range emitted {
		if emitted[f] {
			continue
		}
		if st.frameStart[f] < cs.Delivery[0] {
			if strict && cs.Kind == "reorder" {
				w.startLost++
			}

			continue
		}
		missing = f

		break
	}
	switch {
	case cs.Kind == "dup":
		if strict && missing >= 0 {
			w.dupLost++ // the statement's liveness premise does not mention duplicates: counted, not judged
		}
	case strict:
		w.premise++
		if missing >= 0 {
			// the frame right before the first lost one: none / a single packet / several packets
			prev := "none"
			switch {
			case missing > 0 && !emitted[missing-1]:
				prev = "unsynced" // it begins before the first pushed packet and did not come out
			case missing > 0 && cs.Sizes[missing-1] > 1:
				prev = "multi"
			case missing > 0:
				prev = "single"
			}
			if inOrder {
				prev += "|inorder"
			} else {
				prev += "|reordered"
			}
			fail("frame-lost|prev-frame="+prev, fmt.Sprintf("loss-free stream reordered within maxLate=%d: frame %d (packets %d..%d) never emitted complete after Flush",
				cs.MaxLate, missing, st.frameStart[missing], st.frameEnd[missing]-1))
		}
	case loose && missing >= 0:
		w.looseLost++
	}
}

// c31Orders calls f with every permutation of 0..n-1 in which no element is
// displaced by more than d places (|index - value| <= d).
func c31Orders(n, d int, f func(order []int)) {
	order := make([]int, 0, n)
	usedPos := make([]bool, n)
	var rec func(j int)
	rec = func(j int) {
		if j == n {
			f(order)

			return
		}
		// position j-d must be placed now at the latest
		if j-d >= 0 && !usedPos[j-d] {
			usedPos[j-d] = true
			order = append(order, j-d)
			rec(j + 1)
			order = order[:j]
			usedPos[j-d] = false

			return
		}
		lo, hi := j-d, j+d
		if lo < 0 {
			lo = 0
		}
		if hi > n-1 {
			hi = n - 1
		}
		for p := lo; p <= hi; p++ {
			if usedPos[p] {
				continue
			}
			usedPos[p] = true
			order = append(order, p)
			rec(j + 1)
			order = order[:j]
			usedPos[p] = false
		}
	}
	rec(0)
}

// c31Shapes returns all frame-size vectors of `frames` frames with 1..maxPk packets.
func c31Shapes(frames, maxPk int) [][]int {
	var out [][]int
	vkit.Sequences(maxPk, frames, frames, func(seq []int) {
		s := make([]int, len(seq))
		for i, v := range seq {
			s[i] = v + 1
		}
		out = append(out, s)
	})

	return out
}

type c31Config struct {
	seq      uint16
	ts       uint32
	maxLate  uint16
	delayMs  int
	pop      int
	marker   bool
	allHeads bool
}

// c31Family is one block of the enumeration.
type c31Family struct {
	name    string
	shapes  [][]int
	disp    int  // displacement bound of the delivery orders
	reorder bool // run every order as it is
	loss    bool // run every order with each single packet removed
	dup     bool // run every order with each single packet pushed a second time at every later index
	configs []c31Config
}

func c31Configs(starts [][2]uint32, maxLates []uint16, delays []int, pops []int, markers []bool, heads []bool) []c31Config {
	var out []c31Config
	for _, s := range starts {
		for _, ml := range maxLates {
			for _, d := range delays {
				for _, p := range pops {
					for _, m := range markers {
						for _, h := range heads {
							out = append(out, c31Config{seq: uint16(s[0]), ts: s[1], maxLate: ml, delayMs: d, pop: p, marker: m, allHeads: h}) //nolint:gosec
						}
					}
				}
			}
		}
	}

	return out
}

func TestVerifC31(t *testing.T) {
	c := vkit.New("C31", "model_checking")
	defer c.Finish(t)
	c.Rule("cases = stream shape (frames x packets/frame) x delivery order (every permutation with displacement <= bound; plus every single loss; plus every single duplication at every push index) x sequence/timestamp start (0 and just before wrap-around) x maxLate x WithMaxTimeDelay {absent, shorter than two frame intervals, longer than the stream} x Pop policy {one Pop per Push, Pop until nil per Push, Pop only after Flush} x marker-on-tail; the real Push/Pop/Flush run for every case. states = distinct (filled, active cursors relative to the stream start, prepared count, dropped count, buffer occupancy) tuples of the real builder observed after a step; transitions = executed Push/Pop/Flush calls. A case class is non-trivial when the builder emitted at least one sample")
	c.Assume("premise of the liveness clause ('reordered within maxLate') read conservatively: at every push, highest pushed sequence number minus the first sequence number of the earliest incomplete frame < maxLate; it is demanded only for pure reorderings with a marker on every frame tail and WithMaxTimeDelay absent or longer than the stream, and only for frames that begin at or after the first packet pushed (the builder synchronises on the first packet it sees); duplicates, the weaker reading and frames before the first pushed packet are counted in coverage, not judged")
	c.Assume("the builder under test is reset in place between cases (all scalar fields as New() sets them, the touched windows of both arrays cleared, a periodic full scan proves nothing lies outside the windows)")

	if raw, ok := c.ReplayCase(); ok {
		var cs c31Case
		if err := json.Unmarshal(raw, &cs); err != nil {
			vkit.Fatalf(t, "replay case: %v", err)
		}
		cs.Trace = nil
		c31Run(c, c31NewWorker(t), &cs, true)
		c.NotExhaustive("replay of one case")

		return
	}

	wrapSeq, wrapTs := uint32(65534), uint32(1<<32-2)
	startsWrap := [][2]uint32{{wrapSeq, wrapTs}}
	starts2 := [][2]uint32{{0, 0}, {wrapSeq, wrapTs}}
	starts5 := [][2]uint32{{0, 0}, {wrapSeq, wrapTs}, {0, wrapTs}, {wrapSeq, 0}, {65531, 1<<32 - 25}}
	delays := []int{0, 15, 10000} // ms at 1000 Hz: absent / shorter than two frame intervals / longer than any stream
	pops := []int{0, 1, 2}
	yes, both := []bool{true}, []bool{true, false}
	ml := func(v ...uint16) []uint16 { return v }

	var fams []c31Family
	if c.Quick() {
		fams = []c31Family{
			{name: "3 frames x 1-2 packets, all orders, reorder+loss", shapes: c31Shapes(3, 2), disp: 5, reorder: true, loss: true,
				configs: c31Configs(startsWrap, ml(2, 5), delays, []int{0, 2}, yes, both)},
			{name: "3 frames x 1-2 packets, displacement<=2, dup", shapes: c31Shapes(3, 2), disp: 2, dup: true,
				configs: c31Configs(startsWrap, ml(1, 2, 5), []int{0}, pops, yes, both)},
			{name: "2 frames x 1-3 packets, all orders, reorder+loss", shapes: c31Shapes(2, 3), disp: 5, reorder: true, loss: true,
				configs: c31Configs(starts2, ml(2, 5), []int{0}, []int{0, 2}, both, both)},
		}
	} else {
		fams = []c31Family{
			{name: "3 frames x 1-2 packets, all orders, reorder+loss", shapes: c31Shapes(3, 2), disp: 5, reorder: true, loss: true,
				configs: c31Configs(starts2, ml(1, 2, 3, 5), delays, pops, both, both)},
			{name: "3 frames x 1-2 packets, all orders, dup", shapes: c31Shapes(3, 2), disp: 5, dup: true,
				configs: c31Configs(startsWrap, ml(1, 2, 3, 5), []int{0, 15}, pops, yes, both)},
			{name: "2 frames x 1-3 packets, all orders, reorder+loss", shapes: c31Shapes(2, 3), disp: 5, reorder: true, loss: true,
				configs: c31Configs(starts5, ml(1, 2, 3, 5), delays, pops, yes, both)},
			{name: "2 frames x 1-3 packets, all orders, dup", shapes: c31Shapes(2, 3), disp: 5, dup: true,
				configs: c31Configs(startsWrap, ml(1, 2, 3, 5), []int{0, 15}, pops, yes, both)},
			{name: "3 frames x 1-3 packets, displacement<=2, reorder+loss", shapes: c31Shapes(3, 3), disp: 2, reorder: true, loss: true,
				configs: c31Configs(starts2, ml(2, 5), delays, pops, yes, both)},
			{name: "4 frames x 1-2 packets, displacement<=3, reorder+loss+dup", shapes: c31Shapes(4, 2), disp: 3, reorder: true, loss: true, dup: true,
				configs: c31Configs(startsWrap, ml(2, 5), []int{0, 15}, []int{0, 2}, yes, both)},
			{name: "4 frames x 1-3 packets, displacement<=2, reorder", shapes: c31Shapes(4, 3), disp: 2, reorder: true,
				configs: c31Configs(startsWrap, ml(2, 5), []int{0}, []int{0, 2}, yes, both)},
		}
	}

	type item struct {
		fam   int
		shape int
		cfg   int
	}
	var items []item
	for fi, f := range fams {
		for si := range f.shapes {
			for ci := range f.configs {
				items = append(items, item{fi, si, ci})
			}
		}
	}
	// heavy items first (long shapes) so the tail of the parallel run is short
	sort.SliceStable(items, func(a, b int) bool {
		na := c31NewStream(fams[items[a].fam].shapes[items[a].shape]).n
		nb := c31NewStream(fams[items[b].fam].shapes[items[b].shape]).n

		return na > nb
	})
	c.Set("work_items", len(items))
	famDesc := []string{}
	for _, f := range fams {
		famDesc = append(famDesc, fmt.Sprintf("%s: %d shapes x %d configs", f.name, len(f.shapes), len(f.configs)))
	}
	c.Set("families", famDesc)

	var (
		mu      sync.Mutex
		workers []*c31Worker // every worker ever created
		free    []*c31Worker
		skipped int
	)
	deadline := c.Deadline(time.Duration(c.Pick(28, 500)) * time.Second)

	vkit.Parallel(len(items), func(i int) {
		if time.Now().After(deadline) {
			mu.Lock()
			skipped++
			mu.Unlock()

			return
		}
		mu.Lock()
		var w *c31Worker
		if len(free) > 0 {
			w, free = free[len(free)-1], free[:len(free)-1]
		} else {
			w = c31NewWorker(t)
			workers = append(workers, w)
		}
		mu.Unlock()
		defer func() {
			mu.Lock()
			free = append(free, w)
			mu.Unlock()
		}()
		it := items[i]
		fam := fams[it.fam]
		cfg := fam.configs[it.cfg]
		sizes := fam.shapes[it.shape]
		st := c31NewStream(sizes)
		cs := c31Case{Sizes: sizes, SeqStart: cfg.seq, TsStart: cfg.ts, MaxLate: cfg.maxLate, DelayMs: cfg.delayMs, Pop: cfg.pop, Marker: cfg.marker, AllHeads: cfg.allHeads}
		buf := make([]int, 0, st.n+1)
		runOne := func(kind string, delivery []int) {
			cs.Kind = kind
			cs.Delivery = delivery
			c31Run(c, w, &cs, false)
		}
		c31Orders(st.n, fam.disp, func(order []int) {
			if fam.reorder {
				runOne("reorder", order)
			}
			if fam.loss {
				for drop := 0; drop < st.n; drop++ {
					buf = buf[:0]
					for _, p := range order {
						if p != drop {
							buf = append(buf, p)
						}
					}
					runOne("loss", buf)
				}
			}
			if fam.dup {
				// the duplicate of order[k] is inserted at every index after k
				for k := 0; k < st.n; k++ {
					for at := k + 1; at <= st.n; at++ {
						buf = buf[:0]
						buf = append(buf, order[:at]...)
						buf = append(buf, order[k])
						buf = append(buf, order[at:]...)
						runOne("dup", buf)
					}
				}
			}
		})
	})

	if skipped > 0 {
		c.NotExhaustive(fmt.Sprintf("time budget reached: %d of %d work items not run", skipped, len(items)))
	}
	var premise, looseLost, dupLost, startLost int64
	all := map[uint64]struct{}{}
	classes := map[int]struct{}{}
	outcomes := map[int]struct{}{}
	kinds := map[string]int64{}
	for _, w := range workers {
		for k := range w.states {
			all[k] = struct{}{}
		}
		for k := range w.classes {
			classes[k] = struct{}{}
		}
		for k := range w.outcomes {
			outcomes[k] = struct{}{}
		}
		for i, n := range w.kinds {
			kinds[c31Kinds[i]] += n
		}
		c.TransitionN(int(w.trans))
		premise += w.premise
		looseLost += w.looseLost
		dupLost += w.dupLost
		startLost += w.startLost
	}
	for k := range all {
		c.State(fmt.Sprintf("%x", k))
	}
	for k := range classes {
		c.Distinct(c31ClassName(k))
	}
	for k := range outcomes {
		c.Outcome(fmt.Sprintf("samples=%d", k))
	}
	c.Set("cases_by_kind", kinds)
	c.Set("liveness_premise_cases", premise)
	c.Set("info_frames_lost_under_weaker_reading_of_within_maxLate", looseLost)
	c.Set("info_frames_lost_with_duplicate_in_premise", dupLost)
	c.Set("info_cases_losing_a_frame_that_begins_before_the_first_pushed_packet", startLost)
	c.Sample(c31Case{Sizes: []int{1, 2, 1}, SeqStart: 65534, TsStart: 1<<32 - 2, MaxLate: 2, DelayMs: 0, Pop: 0, Marker: true, Delivery: []int{1, 0, 2, 3}, Kind: "reorder"})
	c.Sample(c31Case{Sizes: []int{2, 1, 2}, SeqStart: 0, TsStart: 0, MaxLate: 5, DelayMs: 15, Pop: 1, Marker: true, Delivery: []int{0, 2, 1, 2, 4, 3}, Kind: "dup"})
}
