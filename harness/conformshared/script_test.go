package webrtc

// Conformance scripts binding the environment fakes of pion/sctp + pion/datachannel to the real
// libraries: the same library-level scripts run (free-running) against the real libraries (two real
// associations over an in-memory datagram pipe, plain build) and against the fakes (fake build, the
// peer's actions given as Env* events); the recorded facts must be identical.

import (
	"encoding/json"
	"errors"
	"fmt"
	"io"
	"os"
	"path/filepath"
	"sort"
	"strings"
	"sync"
	"time"

	"github.com/pion/datachannel"
	"github.com/pion/webrtc/v4/internal/verif/vkit"
)

// confEnv is one connected association seen from the LOCAL side plus a driver for the peer.
type confEnv interface {
	Dial(id uint16, cfg *datachannel.Config) (*datachannel.DataChannel, error)
	Accept(cfg *datachannel.Config) (*datachannel.DataChannel, error)
	AbortLocal()
	PeerAcceptAndAck() // the peer accepts the channel the local side dialled (its ack reaches the local side)
	PeerOpen(id uint16, cfg *datachannel.Config)
	PeerSend(id uint16, data []byte, isString bool)
	PeerClose(id uint16) // the peer resets its outgoing stream of channel id (for the real peer: closes its channel)
	// PeerAnswersResets: the real peer answers a reset on its own (it is always reading); the fake peer needs PeerClose
	PeerAnswersResets() bool
	Shutdown()
}

type confFacts map[string]any

func confWait(what string, cond func() bool) bool {
	deadline := time.Now().Add(20 * time.Second)
	for !cond() {
		if time.Now().After(deadline) {
			return false
		}
		time.Sleep(200 * time.Microsecond)
	}

	return true
}

type confRead struct {
	N        int
	Data     string
	IsString bool
	Err      string
	IsEOF    bool
}

// confReader reads messages from dc in a goroutine and records results.
type confReader struct {
	mu      sync.Mutex
	results []confRead
}

func (r *confReader) start(dc *datachannel.DataChannel) {
	go func() {
		buf := make([]byte, 70000)
		for {
			n, isString, err := dc.ReadDataChannel(buf)
			res := confRead{N: n, IsString: isString}
			if err != nil {
				res.Err = "error"
				res.IsEOF = errors.Is(err, io.EOF)
			} else {
				res.Data = string(buf[:n])
			}
			r.mu.Lock()
			r.results = append(r.results, res)
			r.mu.Unlock()
			if err != nil {
				return
			}
		}
	}()
}

func (r *confReader) count() int {
	r.mu.Lock()
	defer r.mu.Unlock()

	return len(r.results)
}

func (r *confReader) get(i int) confRead {
	r.mu.Lock()
	defer r.mu.Unlock()

	return r.results[i]
}

var confCfg = datachannel.Config{ChannelType: datachannel.ChannelTypeReliable, Priority: datachannel.ChannelPriorityNormal, Label: "lbl", Protocol: "proto"}

// confScripts returns name -> script. Each script gets a fresh environment.
func confScripts() map[string]func(e confEnv) confFacts {
	return map[string]func(e confEnv) confFacts{
		"S1-dial-returns-at-once": func(e confEnv) confFacts {
			cfg := confCfg
			_, err := e.Dial(0, &cfg)

			return confFacts{"dial_error": err != nil}
		},
		"S2-read-blocks-until-message": func(e confEnv) confFacts {
			cfg := confCfg
			dc, err := e.Dial(0, &cfg)
			if err != nil {
				return confFacts{"dial_error": true}
			}
			e.PeerAcceptAndAck()
			var r confReader
			r.start(dc)
			time.Sleep(30 * time.Millisecond)
			early := r.count()
			e.PeerSend(0, []byte("hello"), true)
			e.PeerSend(0, []byte{1, 2, 3}, false)
			e.PeerSend(0, []byte{}, false)
			ok := confWait("3 messages", func() bool { return r.count() >= 3 })
			f := confFacts{"read_before_send": early, "got_all": ok}
			if ok {
				f["m0"], f["m1"], f["m2"] = r.get(0), r.get(1), r.get(2)
			}

			return f
		},
		"S3-onopen-after-ack-while-reading": func(e confEnv) confFacts {
			cfg := confCfg
			dc, err := e.Dial(0, &cfg)
			if err != nil {
				return confFacts{"dial_error": true}
			}
			var mu sync.Mutex
			fired := 0
			dc.OnOpen(func() { mu.Lock(); fired++; mu.Unlock() })
			var r confReader
			r.start(dc)
			e.PeerAcceptAndAck()
			ok := confWait("onopen", func() bool { mu.Lock(); defer mu.Unlock(); return fired > 0 })
			time.Sleep(20 * time.Millisecond)
			mu.Lock()
			n := fired
			mu.Unlock()

			return confFacts{"onopen_fired": ok, "onopen_count": n, "reads_returned": r.count()}
		},
		"S4-local-close-then-peer-reset": func(e confEnv) confFacts {
			cfg := confCfg
			dc, err := e.Dial(0, &cfg)
			if err != nil {
				return confFacts{"dial_error": true}
			}
			e.PeerAcceptAndAck()
			var r confReader
			r.start(dc)
			time.Sleep(10 * time.Millisecond)
			closeErr := dc.Close()
			_, werr := dc.WriteDataChannel([]byte("x"), false)
			if !e.PeerAnswersResets() {
				e.PeerClose(0)
			}
			ok := confWait("read ends", func() bool { return r.count() >= 1 })
			f := confFacts{"close_error": closeErr != nil, "write_after_close_error": werr != nil, "read_ended": ok}
			if ok {
				f["read"] = r.get(0)
			}

			return f
		},
		"S5-peer-closes-first": func(e confEnv) confFacts {
			cfg := confCfg
			dc, err := e.Dial(0, &cfg)
			if err != nil {
				return confFacts{"dial_error": true}
			}
			e.PeerAcceptAndAck()
			var r confReader
			r.start(dc)
			time.Sleep(10 * time.Millisecond)
			e.PeerClose(0)
			ok := confWait("read ends", func() bool { return r.count() >= 1 })
			f := confFacts{"read_ended": ok}
			if ok {
				f["read"] = r.get(0)
				time.Sleep(10 * time.Millisecond)
				_, werr := dc.WriteDataChannel([]byte("x"), false)
				f["write_after_peer_close_error"] = werr != nil
			}

			return f
		},
		"S6-local-abort-ends-reads": func(e confEnv) confFacts {
			cfg := confCfg
			dc, err := e.Dial(0, &cfg)
			if err != nil {
				return confFacts{"dial_error": true}
			}
			e.PeerAcceptAndAck()
			var r confReader
			r.start(dc)
			time.Sleep(10 * time.Millisecond)
			e.AbortLocal()
			ok := confWait("read ends", func() bool { return r.count() >= 1 })
			f := confFacts{"read_ended": ok}
			if ok {
				rr := r.get(0)
				f["read_error"] = rr.Err != ""
			}
			_, werr := dc.WriteDataChannel([]byte("x"), false)
			f["write_after_abort_error"] = werr != nil
			cfg2 := confCfg
			_, derr := e.Dial(2, &cfg2)
			f["dial_after_abort_error"] = derr != nil

			return f
		},
		"S7-peer-opens-channel": func(e confEnv) confFacts {
			pc := datachannel.Config{ChannelType: datachannel.ChannelTypePartialReliableRexmitUnordered, Priority: datachannel.ChannelPriorityNormal, ReliabilityParameter: 5, Label: "peer-label", Protocol: "peer-proto"}
			e.PeerOpen(1, &pc)
			var got *datachannel.DataChannel
			var aerr error
			done := make(chan struct{})
			go func() { got, aerr = e.Accept(&datachannel.Config{}); close(done) }()
			select {
			case <-done:
			case <-time.After(20 * time.Second):
				return confFacts{"accept_returned": false}
			}
			f := confFacts{"accept_returned": true, "accept_error": aerr != nil}
			if aerr == nil {
				f["id"] = got.StreamIdentifier()
				f["type"] = int(got.Config.ChannelType)
				f["rel"] = got.Config.ReliabilityParameter
				f["label"] = got.Config.Label
				f["protocol"] = got.Config.Protocol
				f["negotiated"] = got.Config.Negotiated
			}

			return f
		},
		"S8-accept-after-abort": func(e confEnv) confFacts {
			var aerr error
			done := make(chan struct{})
			go func() { _, aerr = e.Accept(&datachannel.Config{}); close(done) }()
			time.Sleep(10 * time.Millisecond)
			e.AbortLocal()
			select {
			case <-done:
			case <-time.After(20 * time.Second):
				return confFacts{"accept_returned": false}
			}

			return confFacts{"accept_returned": true, "accept_error": aerr != nil, "accept_error_is_eof": errors.Is(aerr, io.EOF)}
		},
	}
}

func confRun(mk func() confEnv) map[string]confFacts {
	out := map[string]confFacts{}
	scripts := confScripts()
	names := make([]string, 0, len(scripts))
	for n := range scripts {
		names = append(names, n)
	}
	sort.Strings(names)
	for _, n := range names {
		e := mk()
		out[n] = scripts[n](e)
		e.Shutdown()
	}

	return out
}

func confPath(which string) string {
	return filepath.Join(vkit.VerifDir(), ".build", "conform-"+which+".json")
}

func confSave(which string, facts map[string]confFacts) error {
	raw, err := json.MarshalIndent(facts, "", " ")
	if err != nil {
		return err
	}
	_ = os.MkdirAll(filepath.Dir(confPath(which)), 0o755)

	return os.WriteFile(confPath(which), raw, 0o644)
}

func confNormalize(facts map[string]confFacts) map[string]string {
	out := map[string]string{}
	for k, v := range facts {
		raw, _ := json.Marshal(v)
		var generic any
		_ = json.Unmarshal(raw, &generic)
		raw, _ = json.Marshal(generic)
		out[k] = string(raw)
	}

	return out
}

// confInconclusive: a script in which a liveness wait ran out (machine overloaded) proves nothing either way.
func confInconclusive(facts string) bool {
	for _, k := range []string{`"got_all":false`, `"onopen_fired":false`, `"read_ended":false`, `"accept_returned":false`} {
		if strings.Contains(facts, k) {
			return true
		}
	}

	return false
}

func confDiff(a, b map[string]string) []string {
	var out []string
	for k, va := range a {
		if confInconclusive(va) || confInconclusive(b[k]) {
			fmt.Printf("VERIF-NOTE conformance script %s inconclusive (a liveness wait ran out): real=%s fake=%s\n", k, va, b[k])

			continue
		}
		if vb, ok := b[k]; !ok || va != vb {
			out = append(out, fmt.Sprintf("%s: real=%s fake=%s", k, va, b[k]))
		}
	}
	sort.Strings(out)

	return out
}
