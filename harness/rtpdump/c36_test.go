package rtpdump

// C36 — rtpdump files round-trip, and malformed records are rejected.
//
// Bounded exhaustive enumeration on the real Writer / Reader:
//   A. every header of a boundary domain x every packet list up to a length
//      bound over boundary payload sizes (below, at and beyond 65527), RTP/RTCP
//      and boundary millisecond offsets is written by the real Writer; the file
//      is parsed by an OWN parser written from the format description
//      (rtptools: "#!rtpplay1.0 addr/port\n", RD_hdr_t, RD_packet_t) and by the
//      real Reader; both must return exactly the representable packets, and the
//      writer must have refused every payload the 16-bit length cannot hold.
//   B. files produced by an OWN encoder are read by the real Reader.
//   C. raw record streams: every length field 0..16 (and around 65535) after
//      0..2 valid records, followed by nothing / a short tail / tails around
//      64 KiB / >= 70000 bytes: length fields below the 8-byte record header
//      must be rejected (an error instead of a packet).
//   D. headers / offsets the format cannot represent (non-IPv4 source, start
//      outside 32-bit seconds, offsets outside 32-bit milliseconds): the writer
//      must refuse or at least not write a file that is structurally corrupt.

import (
	"bytes"
	"encoding/binary"
	"fmt"
	"net"
	"strconv"
	"strings"
	"testing"
	"time"

	"github.com/pion/webrtc/v4/internal/verif/vkit"
)

// ---------------------------------------------------------------- own format model

type c36Rec struct {
	Length uint16 // record length including the 8-byte record header
	PLen   uint16 // RTP: packet length; RTCP: 0
	OffMs  uint32
	Body   []byte
}

type c36File struct {
	PreIP   [4]int
	PrePort int
	Sec     uint32
	Usec    uint32
	IP      [4]byte
	Port    uint16
	Recs    []c36Rec
}

// c36Parse is the independent parser: it follows the rtptools description of
// the file, not pion's reader.
func c36Parse(b []byte) (*c36File, error) {
	const magic = "#!rtpplay1.0 "
	f := &c36File{}
	if !bytes.HasPrefix(b, []byte(magic)) {
		return nil, fmt.Errorf("preamble: magic missing")
	}
	nl := bytes.IndexByte(b, '\n')
	if nl < 0 {
		return nil, fmt.Errorf("preamble: no newline")
	}
	line := string(b[len(magic):nl])
	slash := strings.IndexByte(line, '/')
	if slash < 0 {
		return nil, fmt.Errorf("preamble: no slash in %q", line)
	}
	quad := strings.Split(line[:slash], ".")
	if len(quad) != 4 {
		return nil, fmt.Errorf("preamble: address %q is not a dotted quad", line[:slash])
	}
	dec := func(s string, max int) (int, bool) {
		if s == "" || len(s) > 5 {
			return 0, false
		}
		v := 0
		for _, ch := range s {
			if ch < '0' || ch > '9' {
				return 0, false
			}
			v = v*10 + int(ch-'0')
		}

		return v, v <= max
	}
	for i, q := range quad {
		v, ok := dec(q, 255)
		if !ok {
			return nil, fmt.Errorf("preamble: address %q is not a dotted quad", line[:slash])
		}
		f.PreIP[i] = v
	}
	port, ok := dec(line[slash+1:], 65535)
	if !ok {
		return nil, fmt.Errorf("preamble: bad port %q", line[slash+1:])
	}
	f.PrePort = port
	rest := b[nl+1:]
	if len(rest) < 16 {
		return nil, fmt.Errorf("file header truncated: %d bytes", len(rest))
	}
	f.Sec = uint32(rest[0])<<24 | uint32(rest[1])<<16 | uint32(rest[2])<<8 | uint32(rest[3])
	f.Usec = uint32(rest[4])<<24 | uint32(rest[5])<<16 | uint32(rest[6])<<8 | uint32(rest[7])
	copy(f.IP[:], rest[8:12])
	f.Port = uint16(rest[12])<<8 | uint16(rest[13])
	rest = rest[16:]
	for n := 0; len(rest) > 0; n++ {
		if len(rest) < 8 {
			return f, fmt.Errorf("record %d: header truncated (%d bytes)", n, len(rest))
		}
		r := c36Rec{
			Length: uint16(rest[0])<<8 | uint16(rest[1]),
			PLen:   uint16(rest[2])<<8 | uint16(rest[3]),
			OffMs:  uint32(rest[4])<<24 | uint32(rest[5])<<16 | uint32(rest[6])<<8 | uint32(rest[7]),
		}
		if r.Length < 8 {
			return f, fmt.Errorf("record %d: length field %d is smaller than the record header", n, r.Length)
		}
		if len(rest) < int(r.Length) {
			return f, fmt.Errorf("record %d: body truncated (length %d, %d bytes left)", n, r.Length, len(rest))
		}
		r.Body = rest[8:r.Length]
		rest = rest[r.Length:]
		f.Recs = append(f.Recs, r)
	}

	return f, nil
}

// c36Encode is the independent encoder.
func c36Encode(ip [4]byte, port uint16, sec, usec uint32, recs []c36Rec) []byte {
	var b []byte
	b = append(b, "#!rtpplay1.0 "...)
	for i, x := range ip {
		if i > 0 {
			b = append(b, '.')
		}
		b = strconv.AppendInt(b, int64(x), 10)
	}
	b = append(b, '/')
	b = strconv.AppendInt(b, int64(port), 10)
	b = append(b, '\n')
	b = binary.BigEndian.AppendUint32(b, sec)
	b = binary.BigEndian.AppendUint32(b, usec)
	b = append(b, ip[:]...)
	b = binary.BigEndian.AppendUint16(b, port)
	b = append(b, 0, 0)
	for _, r := range recs {
		b = binary.BigEndian.AppendUint16(b, r.Length)
		b = binary.BigEndian.AppendUint16(b, r.PLen)
		b = binary.BigEndian.AppendUint32(b, r.OffMs)
		b = append(b, r.Body...)
	}

	return b
}

// ---------------------------------------------------------------- domains

type c36Hdr struct {
	Name  string
	Start time.Time
	Sec   uint32
	Usec  uint32
	IP    [4]byte
	Src   net.IP
	Port  uint16
}

type c36Pkt struct {
	Size   int
	RTCP   bool
	OffMs  uint32
	Offset time.Duration
}

func (p c36Pkt) String() string {
	k := "rtp"
	if p.RTCP {
		k = "rtcp"
	}

	return fmt.Sprintf("%s/%dB/+%dms", k, p.Size, p.OffMs)
}

const c36MaxPayload = 65527 // 65535 - 8

// c36Payload returns the (shared, read-only) payload of a size: a pattern whose
// phase depends on the size so that shifted or truncated reads differ.
var c36PayloadCache = map[int][]byte{}

func c36Payload(size int) []byte {
	return c36PayloadCache[size]
}

func c36MakePayload(size int) {
	if _, ok := c36PayloadCache[size]; ok {
		return
	}
	b := make([]byte, size)
	for i := range b {
		b[i] = byte((i*7 + size*13 + i/251) & 0xff)
	}
	// first byte looks like an RTP/RTCP version-2 octet
	b[0] = 0x80 | byte(size&0x0f)
	c36PayloadCache[size] = b
}

func c36SizeClass(n int) string {
	switch {
	case n == 0:
		return "0"
	case n <= c36MaxPayload:
		return "1..65527"
	case n < 65536:
		return "65528..65535"
	default:
		return "65536+"
	}
}

func c36Headers(full bool) []c36Hdr {
	type st struct {
		sec, usec uint32
		loc       *time.Location
	}
	starts := []st{
		{0, 0, time.UTC},
		{0, 1, time.UTC},
		{1<<32 - 1, 999999, time.UTC},
	}
	srcs := [][4]byte{{0, 0, 0, 0}, {255, 255, 255, 255}}
	ports := []uint16{0, 65535}
	if full {
		starts = append(starts,
			st{1, 999999, time.UTC},
			st{1<<32 - 1, 0, time.UTC},
			st{1<<31 - 1, 500000, time.UTC},
			st{1 << 31, 0, time.UTC},
			st{1700000000, 123456, time.FixedZone("east", 5*3600+1800)},
		)
		srcs = append(srcs, [4]byte{1, 2, 3, 4}, [4]byte{127, 0, 0, 1}, [4]byte{10, 100, 200, 9})
		ports = append(ports, 1, 8080)
	}
	var out []c36Hdr
	for _, s := range starts {
		for si, ip := range srcs {
			for _, port := range ports {
				h := c36Hdr{Sec: s.sec, Usec: s.usec, IP: ip, Port: port}
				h.Start = time.Unix(int64(s.sec), int64(s.usec)*1000).In(s.loc)
				// both the 4-byte and the 16-byte form of an IPv4 address are IPv4 sources
				if si%2 == 0 {
					h.Src = net.IPv4(ip[0], ip[1], ip[2], ip[3])
				} else {
					h.Src = net.IP{ip[0], ip[1], ip[2], ip[3]}
				}
				h.Name = fmt.Sprintf("start=%d.%06d/src=%d.%d.%d.%d(len%d)/port=%d", s.sec, s.usec, ip[0], ip[1], ip[2], ip[3], len(h.Src), port)
				out = append(out, h)
			}
		}
	}

	return out
}

func c36Variants(sizes []int) []c36Pkt {
	offs := []uint32{0, 1, 1<<32 - 1}
	var out []c36Pkt
	for _, s := range sizes {
		c36MakePayload(s)
		for _, rtcp := range []bool{false, true} {
			for _, o := range offs {
				out = append(out, c36Pkt{Size: s, RTCP: rtcp, OffMs: o, Offset: time.Duration(o) * time.Millisecond})
			}
		}
	}

	return out
}

// ---------------------------------------------------------------- part A/B: write + read

type c36Case struct {
	Part   string   `json:"part"`
	Header string   `json:"header"`
	Pkts   []string `json:"packets"`
}

// c36ReadAll drains the real reader: packets until the first error.
func c36ReadAll(r *Reader, limit int) ([]Packet, error) {
	var out []Packet
	for i := 0; i < limit; i++ {
		p, err := r.Next()
		if err != nil {
			return out, err
		}
		out = append(out, p)
	}

	return out, nil
}

// c36CheckRead compares what the real reader returns for file with the expected
// header and packets; it returns the first difference as (key, text).
func c36CheckRead(file []byte, h c36Hdr, want []c36Pkt) (string, string) {
	rd, gotHdr, err := NewReader(bytes.NewReader(file))
	if err != nil {
		return "reader|valid-file-rejected|stage=header", fmt.Sprintf("NewReader: %v", err)
	}
	if !gotHdr.Start.Equal(h.Start) {
		return "roundtrip|header|field=start", fmt.Sprintf("start %v, want %v", gotHdr.Start.UTC(), h.Start.UTC())
	}
	if !gotHdr.Source.Equal(h.Src) {
		return "roundtrip|header|field=source", fmt.Sprintf("source %v, want %v", gotHdr.Source, h.Src)
	}
	if gotHdr.Port != h.Port {
		return "roundtrip|header|field=port", fmt.Sprintf("port %d, want %d", gotHdr.Port, h.Port)
	}
	got, err := c36ReadAll(rd, len(want)+2)
	if len(got) < len(want) {
		return "reader|valid-file-rejected|stage=packet|size=" + c36SizeClass(want[len(got)].Size),
			fmt.Sprintf("reader stopped after %d of %d packets: %v", len(got), len(want), err)
	}
	for i, w := range want {
		g := got[i]
		cls := c36SizeClass(w.Size)
		if g.Offset != w.Offset {
			return "roundtrip|packet|field=offset", fmt.Sprintf("packet %d: offset %v, want %v", i, g.Offset, w.Offset)
		}
		if g.IsRTCP != w.RTCP {
			return "roundtrip|packet|field=isrtcp|size=" + cls, fmt.Sprintf("packet %d: IsRTCP %v, want %v", i, g.IsRTCP, w.RTCP)
		}
		if !bytes.Equal(g.Payload, c36Payload(w.Size)) {
			return "roundtrip|packet|field=payload|size=" + cls, fmt.Sprintf("packet %d: payload of %d bytes differs from the %d bytes written", i, len(g.Payload), w.Size)
		}
	}
	if len(got) > len(want) || err == nil {
		return "reader|extra-packet", fmt.Sprintf("reader returned %d packets, %d were written (err=%v)", len(got), len(want), err)
	}

	return "", ""
}

// c36CheckFormat compares the own parse of file with the expected content.
func c36CheckFormat(file []byte, h c36Hdr, want []c36Pkt) (string, string) {
	f, err := c36Parse(file)
	if err != nil {
		return "format|writer-output-unparsable", "own parser: " + err.Error()
	}
	for i := 0; i < 4; i++ {
		if f.PreIP[i] != int(h.IP[i]) {
			return "format|preamble|field=address", fmt.Sprintf("preamble address %v, want %v", f.PreIP, h.IP)
		}
	}
	if f.PrePort != int(h.Port) {
		return "format|preamble|field=port", fmt.Sprintf("preamble port %d, want %d", f.PrePort, h.Port)
	}
	if f.Sec != h.Sec || f.Usec != h.Usec {
		return "format|header|field=start", fmt.Sprintf("start %d.%06d, want %d.%06d", f.Sec, f.Usec, h.Sec, h.Usec)
	}
	if f.IP != h.IP {
		return "format|header|field=source", fmt.Sprintf("source %v, want %v", f.IP, h.IP)
	}
	if f.Port != h.Port {
		return "format|header|field=port", fmt.Sprintf("port %d, want %d", f.Port, h.Port)
	}
	if len(f.Recs) != len(want) {
		return "format|record-count", fmt.Sprintf("file holds %d records, %d packets were accepted", len(f.Recs), len(want))
	}
	for i, w := range want {
		r := f.Recs[i]
		cls := c36SizeClass(w.Size)
		if !bytes.Equal(r.Body, c36Payload(w.Size)) {
			return "format|record|field=body|size=" + cls, fmt.Sprintf("record %d: body of %d bytes differs from the %d bytes written", i, len(r.Body), w.Size)
		}
		if r.OffMs != w.OffMs {
			return "format|record|field=offset", fmt.Sprintf("record %d: offset %d ms, want %d", i, r.OffMs, w.OffMs)
		}
		if (r.PLen == 0) != w.RTCP {
			return "format|record|field=plen|size=" + cls, fmt.Sprintf("record %d: plen %d for rtcp=%v", i, r.PLen, w.RTCP)
		}
	}

	return "", ""
}

func c36RunList(c *vkit.Check, h c36Hdr, list []c36Pkt) {
	c.Eval()
	names := make([]string, len(list))
	for i, p := range list {
		names[i] = p.String()
	}
	rc := c36Case{Part: "write-read", Header: h.Name, Pkts: names}
	c.Guard(vkit.Short(rc), rc, func() {
		var buf bytes.Buffer
		w, err := NewWriter(&buf, Header{Start: h.Start, Source: h.Src, Port: h.Port})
		if err != nil {
			c.Violation("writer|representable-header-refused", fmt.Sprintf("NewWriter(%s): %v", h.Name, err), rc)

			return
		}
		var accepted []c36Pkt
		classes := ""
		for i, p := range list {
			before := buf.Len()
			err := w.WritePacket(Packet{Offset: p.Offset, IsRTCP: p.RTCP, Payload: c36Payload(p.Size)})
			cls := c36SizeClass(p.Size)
			classes += cls + ","
			if p.Size > c36MaxPayload {
				if err == nil {
					c.Violation("writer|payload="+cls+"|not-refused",
						fmt.Sprintf("WritePacket accepted a %d-byte payload (packet %d of %v); the 16-bit length field holds at most 65527+8", p.Size, i, names), rc)
					c.Outcome("oversize-accepted")

					return
				}
				c.Outcome("oversize-refused")
				if buf.Len() != before {
					c.Violation("writer|payload="+cls+"|refused-but-bytes-written",
						fmt.Sprintf("WritePacket refused a %d-byte payload but wrote %d bytes", p.Size, buf.Len()-before), rc)

					return
				}

				continue
			}
			if err != nil {
				c.Violation("writer|representable-packet-refused|size="+cls, fmt.Sprintf("WritePacket(%s): %v", p, err), rc)

				return
			}
			accepted = append(accepted, p)
		}
		c.Distinct("list|" + classes)
		file := buf.Bytes()
		if key, what := c36CheckFormat(file, h, accepted); key != "" {
			c.Violation(key, what+" (header "+h.Name+", packets "+strings.Join(names, " "), rc)

			return
		}
		if key, what := c36CheckRead(file, h, accepted); key != "" {
			c.Violation(key, what+" (header "+h.Name+", packets "+strings.Join(names, " "), rc)

			return
		}
		c.Outcome(fmt.Sprintf("roundtrip-ok|n=%d", len(accepted)))

		// part B: the same content through the own encoder must read back too
		if len(list) <= 2 {
			recs := make([]c36Rec, 0, len(accepted))
			for _, p := range accepted {
				r := c36Rec{Length: uint16(p.Size + 8), OffMs: p.OffMs, Body: c36Payload(p.Size)}
				if !p.RTCP {
					r.PLen = uint16(p.Size)
				}
				recs = append(recs, r)
			}
			own := c36Encode(h.IP, h.Port, h.Sec, h.Usec, recs)
			if key, what := c36CheckRead(own, h, accepted); key != "" {
				c.Violation("own-file|"+key, what+" (file of the own encoder; header "+h.Name+", packets "+strings.Join(names, " "), rc)
			}
		}
	})
}

// ---------------------------------------------------------------- part C: raw record streams

type c36RawCase struct {
	Part     string `json:"part"`
	Prefix   int    `json:"valid_records_before"`
	LenField int    `json:"length_field"`
	PLen     int    `json:"plen_field"`
	Body     int    `json:"body_bytes"`
	Tail     int    `json:"tail_bytes"`
	TailKind string `json:"tail_kind"`
}

func c36TailClass(n int) string {
	switch {
	case n == 0:
		return "none"
	case n < 65528:
		return "short"
	case n < 65536:
		return "near64k"
	default:
		return "long"
	}
}

func c36RunRaw(c *vkit.Check, rc c36RawCase) {
	c.Eval()
	c.Guard(vkit.Short(rc), rc, func() {
		ip := [4]byte{10, 0, 0, 1}
		var recs []c36Rec
		valid := []c36Rec{
			{Length: 9, PLen: 1, OffMs: 7, Body: c36Payload(1)},
			{Length: 13, PLen: 0, OffMs: 8, Body: c36Payload(5)},
		}
		recs = append(recs, valid[:rc.Prefix]...)
		file := c36Encode(ip, 5004, 3, 4, recs)
		// the record under test, written out by hand
		file = binary.BigEndian.AppendUint16(file, uint16(rc.LenField))
		file = binary.BigEndian.AppendUint16(file, uint16(rc.PLen))
		file = binary.BigEndian.AppendUint32(file, 99)
		body := make([]byte, rc.Body)
		for i := range body {
			body[i] = byte(0xa0 + i)
		}
		file = append(file, body...)
		tail := make([]byte, rc.Tail)
		if rc.TailKind == "pattern" {
			for i := range tail {
				tail[i] = byte(i*5+1) | 1
			}
		}
		file = append(file, tail...)

		rd, _, err := NewReader(bytes.NewReader(file))
		if err != nil {
			c.Violation("reader|valid-file-rejected|stage=header", fmt.Sprintf("NewReader: %v (%s)", err, vkit.Short(rc)), rc)

			return
		}
		for i := 0; i < rc.Prefix; i++ {
			p, err := rd.Next()
			if err != nil || !bytes.Equal(p.Payload, valid[i].Body) || p.IsRTCP != (valid[i].PLen == 0) ||
				p.Offset != time.Duration(valid[i].OffMs)*time.Millisecond {
				c.Violation("reader|valid-record-before-malformed-one", fmt.Sprintf("valid record %d: %+v, %v (%s)", i, p, err, vkit.Short(rc)), rc)

				return
			}
		}
		p, err := rd.Next()
		complete := rc.LenField >= 8 && rc.Body == rc.LenField-8
		switch {
		case rc.LenField < 8:
			// the contract: a length field smaller than the record header is rejected
			lf := "1..7"
			if rc.LenField == 0 {
				lf = "0"
			}
			if err == nil {
				c.Outcome("short-length-accepted")
				c.Violation(fmt.Sprintf("reader|len-field=%s|accepted|tail=%s", lf, c36TailClass(rc.Body+rc.Tail)),
					fmt.Sprintf("record with length field %d (< 8-byte record header) followed by %d bytes: Next returned a packet with a %d-byte payload and no error",
						rc.LenField, rc.Body+rc.Tail, len(p.Payload)), rc)

				return
			}
			c.Outcome("short-length-rejected|" + c36TailClass(rc.Body+rc.Tail))
			c.Distinct(fmt.Sprintf("raw|len<8|prefix=%d|tail=%s", rc.Prefix, c36TailClass(rc.Body+rc.Tail)))
		case complete:
			if err != nil {
				c.Violation("reader|valid-file-rejected|stage=packet|size="+c36SizeClass(rc.Body),
					fmt.Sprintf("complete record with length field %d: %v", rc.LenField, err), rc)

				return
			}
			if !bytes.Equal(p.Payload, body) || p.IsRTCP != (rc.PLen == 0) || p.Offset != 99*time.Millisecond {
				c.Violation("roundtrip|packet|raw-record", fmt.Sprintf("record with length field %d: got %d-byte payload rtcp=%v offset=%v", rc.LenField, len(p.Payload), p.IsRTCP, p.Offset), rc)

				return
			}
			c.Outcome("complete-record-returned")
			c.Distinct(fmt.Sprintf("raw|len=%d|prefix=%d|tail=%s", rc.LenField, rc.Prefix, c36TailClass(rc.Tail)))
		default:
			// truncated body of a well-formed length: the statement is silent; only record what happened
			if err != nil {
				c.Outcome("truncated-body-error")
			} else {
				c.Outcome("truncated-body-packet")
			}
		}
	})
}

// ---------------------------------------------------------------- part D: unrepresentable headers / offsets

func c36RunUnrepresentable(c *vkit.Check) {
	type hc struct {
		name  string
		hdr   Header
		class string
	}
	okStart := time.Unix(5, 0).UTC()
	v4 := net.IPv4(1, 2, 3, 4)
	hcs := []hc{
		{"source=2001:db8::1", Header{Start: okStart, Source: net.ParseIP("2001:db8::1"), Port: 1}, "source=non-ipv4"},
		{"source=::1", Header{Start: okStart, Source: net.ParseIP("::1"), Port: 1}, "source=non-ipv4"},
		{"source=5-byte", Header{Start: okStart, Source: net.IP{1, 2, 3, 4, 5}, Port: 1}, "source=non-ipv4"},
		{"start=-1s", Header{Start: time.Unix(-1, 0).UTC(), Source: v4, Port: 1}, "start=before-epoch"},
		{"start=2^32s", Header{Start: time.Unix(1<<32, 0).UTC(), Source: v4, Port: 1}, "start=after-2106"},
	}
	for _, x := range hcs {
		c.Eval()
		rc := map[string]any{"part": "unrepresentable-header", "header": x.name}
		c.Guard(x.name, rc, func() {
			var buf bytes.Buffer
			w, err := NewWriter(&buf, x.hdr)
			if err != nil {
				c.Outcome("unrepresentable-header-refused|" + x.class)
				c.Distinct("unrep|" + x.class)

				return
			}
			_ = w.WritePacket(Packet{Payload: c36Payload(3)})
			if _, perr := c36Parse(buf.Bytes()); perr != nil {
				c.Violation("writer|"+x.class+"|corrupt-file-written",
					fmt.Sprintf("NewWriter accepted header %s, which the format cannot represent, and wrote a file that does not parse: %v (file starts %q)",
						x.name, perr, string(buf.Bytes()[:min(buf.Len(), 24)])), rc)

				return
			}
			c.Outcome("unrepresentable-header-accepted-wellformed|" + x.class)
			c.Distinct("unrep|" + x.class)
		})
	}
	offs := []struct {
		name string
		d    time.Duration
	}{
		{"offset=-1ms", -time.Millisecond},
		{"offset=2^32ms", time.Duration(1<<32) * time.Millisecond},
		{"offset=maxint64", time.Duration(1<<63 - 1)},
	}
	for _, o := range offs {
		c.Eval()
		rc := map[string]any{"part": "unrepresentable-offset", "offset": o.name}
		c.Guard(o.name, rc, func() {
			var buf bytes.Buffer
			w, err := NewWriter(&buf, Header{Start: okStart, Source: v4, Port: 1})
			if err != nil {
				c.Violation("writer|representable-header-refused", err.Error(), rc)

				return
			}
			if err := w.WritePacket(Packet{Offset: o.d, Payload: c36Payload(3)}); err != nil {
				c.Outcome("unrepresentable-offset-refused")
				c.Distinct("unrep|" + o.name)

				return
			}
			if _, perr := c36Parse(buf.Bytes()); perr != nil {
				c.Violation("writer|offset-out-of-range|corrupt-file-written", fmt.Sprintf("%s: %v", o.name, perr), rc)

				return
			}
			c.Outcome("unrepresentable-offset-accepted-wellformed")
			c.Distinct("unrep|" + o.name)
		})
	}
}

// ---------------------------------------------------------------- the check

func TestVerifC36(t *testing.T) {
	c := vkit.New("C36", "exploration")
	defer c.Finish(t)
	c.Rule("A: every header of the header domain x every packet list up to the length bound over (payload size x RTP/RTCP x offset) is written by the real Writer, parsed by an own rtpdump parser and read by the real Reader; " +
		"B: the same content encoded by an own encoder is read by the real Reader; " +
		"C: raw record streams with every length field of the domain after 0..2 valid records and every tail length of the domain; " +
		"D: headers/offsets outside the format. A case class is distinct by the payload-size classes of its list (A/B), by (length field, prefix, tail class) (C); it is non-trivial when the writer/reader were reached and produced a file / a verdict")
	c.Assume("the independent oracle is the rtptools file description (preamble line, 16-byte RD_hdr_t, 8-byte RD_packet_t with 16-bit length including the header, 16-bit plen = 0 for RTCP, 32-bit ms offset), implemented by c36Parse/c36Encode")
	c.Assume("'rejects' is read as: Next returns a non-nil error instead of a packet (io.EOF caused by an underflowed read of a too-short tail is counted as a rejection)")
	c.Assume("for inputs the format cannot represent other than oversize payloads (non-IPv4 source, start outside 32-bit seconds, offsets outside 32-bit ms) only the weak reading is demanded: refused, or the written file is still structurally well-formed")

	quick := c.Quick()
	for _, n := range []int{1, 3, 5} {
		c36MakePayload(n) // payloads are made before the parallel sections (the cache is read-only there)
	}

	// ---- part A/B
	sizesDeep := []int{1, 2, 65526, 65527, 65528, 70000}
	sizesWide := sizesDeep
	depthDeep := 2
	if !quick {
		sizesDeep = []int{1, 2, 65527, 65528, 65536, 70000}
		sizesWide = []int{1, 2, 3, 65526, 65527, 65528, 65529, 65535, 65536, 70000, 131071}
		depthDeep = 3
	}
	c.Set("payload_sizes_depth_"+strconv.Itoa(depthDeep), sizesDeep)
	c.Set("payload_sizes_depth_2", sizesWide)
	c.Set("offsets_ms", []uint32{0, 1, 1<<32 - 1})

	hdrsFull := c36Headers(true)
	hdrsFew := c36Headers(false)
	c.Set("headers_full_domain", len(hdrsFull))
	c.Set("headers_for_long_lists", len(hdrsFew))

	type job struct {
		h    c36Hdr
		list []c36Pkt
	}
	var jobs []job
	wide := c36Variants(sizesWide)
	deep := c36Variants(sizesDeep)
	// every header x lists of length 0..1 over the wide variant set
	for _, h := range hdrsFull {
		jobs = append(jobs, job{h, nil})
		for _, v := range wide {
			jobs = append(jobs, job{h, []c36Pkt{v}})
		}
	}
	// two contrasting headers x all lists of length 2 over the wide set
	two := []c36Hdr{hdrsFew[0], hdrsFew[len(hdrsFew)-1]}
	for _, h := range two {
		for _, a := range wide {
			for _, b := range wide {
				jobs = append(jobs, job{h, []c36Pkt{a, b}})
			}
		}
	}
	// one header x all lists of length 3 over the deep set (thorough)
	if depthDeep >= 3 {
		h := hdrsFew[len(hdrsFew)-1]
		for _, a := range deep {
			for _, b := range deep {
				for _, d := range deep {
					jobs = append(jobs, job{h, []c36Pkt{a, b, d}})
				}
			}
		}
	}
	c.Set("write_read_cases", len(jobs))
	c.Sample(map[string]any{"part": "write-read", "header": jobs[len(jobs)-1].h.Name, "packets": fmt.Sprint(jobs[len(jobs)-1].list)})
	vkit.Parallel(len(jobs), func(i int) { c36RunList(c, jobs[i].h, jobs[i].list) })

	// ---- part C
	var raws []c36RawCase
	lenFields := []int{}
	for l := 0; l <= 16; l++ {
		lenFields = append(lenFields, l)
	}
	if !quick {
		lenFields = append(lenFields, 17, 255, 256, 65535)
	}
	tails := []int{0, 3, 70000}
	if !quick {
		tails = []int{0, 1, 3, 7, 8, 9, 16, 65519, 65520, 65527, 65528, 65529, 65530, 65531, 65532, 65533, 65534, 65535, 65536, 65537, 70000, 140000}
	}
	c.Set("raw_length_fields", lenFields)
	c.Set("raw_tail_lengths", tails)
	for prefix := 0; prefix <= 2; prefix++ {
		for _, l := range lenFields {
			for pi, plen := range []int{0, l, 0xffff} {
				if pi == 1 && l == 0 {
					continue
				}
				bodies := []int{0}
				if l >= 8 {
					bodies = []int{l - 8}
					if l > 8 {
						bodies = append(bodies, 0, l-9) // truncated bodies
					}
				}
				for _, body := range bodies {
					for _, tail := range tails {
						if l >= 8 && body != l-8 && tail != 0 {
							continue // a truncated body is one that ends the file
						}
						for _, kind := range []string{"zero", "pattern"} {
							if tail == 0 && kind == "pattern" {
								continue
							}
							raws = append(raws, c36RawCase{"raw-record", prefix, l, plen, body, tail, kind})
						}
					}
				}
			}
		}
	}
	c.Set("raw_record_cases", len(raws))
	c.Sample(raws[len(raws)/2])
	vkit.Parallel(len(raws), func(i int) { c36RunRaw(c, raws[i]) })

	// ---- part D
	c36RunUnrepresentable(c)
	c.Sample(map[string]any{"part": "unrepresentable-header", "header": "source=2001:db8::1"})
}
