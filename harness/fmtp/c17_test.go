package fmtp

// C17 — Codec compatibility is symmetric and case-insensitive.
// Bounded exhaustive enumeration on the real Parse/Match: every ORDERED pair of
// codec descriptions of a finite product (mime x clock x channels x fmtp line)
// plus the codecs RegisterDefaultCodecs registers (read from the source of
// ../../mediaengine.go at run time, package fmtp cannot import package webrtc).
// The oracle is relational (no reference matcher is needed):
//   Match(A,B) == Match(B,A);
//   Match(A,B) unchanged when the letter case of A's or B's mime type changes;
//   every default codec matches itself.

import (
	"encoding/json"
	"fmt"
	"go/ast"
	"go/parser"
	"go/token"
	"os"
	"sort"
	"strconv"
	"strings"
	"testing"
	"unicode"

	"github.com/pion/webrtc/v4/internal/verif/vkit"
)

type c17Desc struct {
	Mime  string `json:"mime"`
	Clock uint32 `json:"clock"`
	Ch    uint16 `json:"channels"`
	Line  string `json:"fmtp"`
}

func (d c17Desc) parse() FMTP { return Parse(d.Mime, d.Clock, d.Ch, d.Line) }

// c17ASCII reports whether s is pure ASCII.
func c17ASCII(s string) bool {
	for i := 0; i < len(s); i++ {
		if s[i] >= 0x80 {
			return false
		}
	}

	return true
}

// c17Alt flips the case of every second letter.
func c17Alt(s string) string {
	out := []rune(s)
	n := 0
	for i, r := range out {
		if !unicode.IsLetter(r) {
			continue
		}
		if n%2 == 0 {
			if unicode.IsUpper(r) {
				out[i] = unicode.ToLower(r)
			} else {
				out[i] = unicode.ToUpper(r)
			}
		}
		n++
	}

	return string(out)
}

// c17Class is the lower-cased mime with non-ASCII letters made visible; used in keys only.
func c17Class(m string) string {
	if c17ASCII(m) {
		return strings.ToLower(m)
	}

	return strings.Trim(strings.ToLower(strconv.QuoteToASCII(m)), `"`)
}

// c17EvalString evaluates a string-valued expression of the default codec table.
func c17EvalString(e ast.Expr, consts map[string]string) (string, error) {
	switch v := e.(type) {
	case *ast.BasicLit:
		if v.Kind == token.STRING {
			return strconv.Unquote(v.Value)
		}
	case *ast.Ident:
		if s, ok := consts[v.Name]; ok {
			return s, nil
		}
	case *ast.ParenExpr:
		return c17EvalString(v.X, consts)
	case *ast.BinaryExpr:
		if v.Op == token.ADD {
			a, err := c17EvalString(v.X, consts)
			if err != nil {
				return "", err
			}
			b, err := c17EvalString(v.Y, consts)
			if err != nil {
				return "", err
			}

			return a + b, nil
		}
	}

	return "", fmt.Errorf("cannot evaluate string expression %T", e)
}

func c17EvalUint(e ast.Expr) (uint64, error) {
	if v, ok := e.(*ast.BasicLit); ok && v.Kind == token.INT {
		return strconv.ParseUint(v.Value, 0, 32)
	}

	return 0, fmt.Errorf("cannot evaluate integer expression %T", e)
}

// c17Defaults extracts the RTPCodecCapability literals of
// (*MediaEngine).RegisterDefaultCodecs from the source of package webrtc.
func c17Defaults(tb testing.TB) []c17Desc {
	tb.Helper()
	fset := token.NewFileSet()
	consts := map[string]string{}
	mf, err := parser.ParseFile(fset, "../../mimetype.go", nil, 0)
	if err != nil {
		vkit.Fatalf(tb, "parse mimetype.go: %v", err)
	}
	for _, d := range mf.Decls {
		gd, ok := d.(*ast.GenDecl)
		if !ok || gd.Tok != token.CONST {
			continue
		}
		for _, s := range gd.Specs {
			vs, ok := s.(*ast.ValueSpec)
			if !ok {
				continue
			}
			for i, n := range vs.Names {
				if i < len(vs.Values) {
					if str, err := c17EvalString(vs.Values[i], consts); err == nil {
						consts[n.Name] = str
					}
				}
			}
		}
	}
	ef, err := parser.ParseFile(fset, "../../mediaengine.go", nil, 0)
	if err != nil {
		vkit.Fatalf(tb, "parse mediaengine.go: %v", err)
	}
	var out []c17Desc
	found := false
	for _, d := range ef.Decls {
		fd, ok := d.(*ast.FuncDecl)
		if !ok || fd.Name.Name != "RegisterDefaultCodecs" || fd.Recv == nil || fd.Body == nil {
			continue
		}
		found = true
		ast.Inspect(fd.Body, func(n ast.Node) bool {
			cl, ok := n.(*ast.CompositeLit)
			if !ok {
				return true
			}
			id, ok := cl.Type.(*ast.Ident)
			if !ok || id.Name != "RTPCodecCapability" {
				return true
			}
			var dsc c17Desc
			set := func(field string, e ast.Expr) {
				var err error
				switch field {
				case "MimeType":
					dsc.Mime, err = c17EvalString(e, consts)
				case "SDPFmtpLine":
					dsc.Line, err = c17EvalString(e, consts)
				case "ClockRate":
					var v uint64
					v, err = c17EvalUint(e)
					dsc.Clock = uint32(v)
				case "Channels":
					var v uint64
					v, err = c17EvalUint(e)
					dsc.Ch = uint16(v)
				}
				if err != nil {
					vkit.Fatalf(tb, "default codec table at %s: field %s: %v", fset.Position(e.Pos()), field, err)
				}
			}
			order := []string{"MimeType", "ClockRate", "Channels", "SDPFmtpLine", "RTCPFeedback"}
			for i, el := range cl.Elts {
				if kv, ok := el.(*ast.KeyValueExpr); ok {
					if k, ok := kv.Key.(*ast.Ident); ok {
						set(k.Name, kv.Value)
					}
				} else if i < len(order) {
					set(order[i], el)
				}
			}
			if dsc.Mime == "" {
				vkit.Fatalf(tb, "default codec table at %s: no mime type", fset.Position(cl.Pos()))
			}
			out = append(out, dsc)

			return false
		})
	}
	if !found {
		vkit.Fatalf(tb, "RegisterDefaultCodecs not found in ../../mediaengine.go")
	}

	return out
}

func TestVerifC17(t *testing.T) {
	c := vkit.New("C17", "exploration")
	defer c.Finish(t)
	c.Rule("every ordered pair (A,B) over the product mime x clock x channels x fmtp-line (plus the default codecs of RegisterDefaultCodecs) is evaluated with the real Parse/Match; per pair: Match(A,B)==Match(B,A) and Match unchanged under upper/lower/alternating case of either mime; a pair class (parser kind of A, of B, result) is non-trivial when both sides were parsed and matched")

	mimes := []string{
		"video/h264", "video/H264", "VIDEO/vp9", "video/av1", "audio/opus", "AUDIO/OPUS",
		"audio/PCMU", "video/rtx", "video/x",
		"audio/opuſ", // LATIN SMALL LETTER LONG S: case-folds to "s", upper-cases to "S"
	}
	clocks := []uint32{0, 8000, 48000, 90000}
	chans := []uint16{0, 1, 2}
	lines := []string{
		"",
		";",
		"level-asymmetry-allowed=1;packetization-mode=1;profile-level-id=42001f",
		"packetization-mode=1;profile-level-id=42e01f",
		"packetization-mode=0;profile-level-id=42001f",
		"profile-level-id=42001f",
		"packetization-mode=1;profile-level-id=42",
		"packetization-mode=1;profile-level-id=zz001f",
		// a well-formed prefix (same profile bytes as a default) with a malformed remainder: each side
		// has to validate BOTH values, otherwise the verdict depends on which side is the receiver
		"packetization-mode=1;profile-level-id=42e01",
		"packetization-mode=1;profile-level-id=42e0zz",
		"packetization-mode=1;profile-level-id=42e01f0",
		"PACKETIZATION-MODE=1;PROFILE-LEVEL-ID=42001F",
		"profile-id=0",
		"profile-id=2;profile=1",
		"profile=0",
		// a parameter that is present with an EMPTY value (vs. absent, vs. the default value): whatever a
		// side makes of it, both sides have to make the same of it
		"profile=",
		"profile-id=",
		"apt=96",
		"profile-id=2;profile-id=0;apt=97;apt=96",
		// a blank directly behind '=' stays in the value: a side that trims it has to trim it on both sides
		"profile-id= 2",
		"profile= 1",
		"profile-id=\t0",
	}
	if !c.Quick() {
		mimes = append(mimes, "video/H265", "video/VP8", "video/vp8", "audio/pcma", "audio/G722",
			"video/flexfec-03", "", "audio/x", "VIDEO/AV1", "audio/pcmu")
		clocks = append(clocks, 1, 16000)
		chans = append(chans, 6)
		lines = append(lines,
			"packetization-mode=1",
			" profile-id = 2 ; profile = 1",
			"profile-id=0;x-google-start-bitrate=1",
			"minptime=10;useinbandfec=1",
			"MINPTIME=10;useinbandfec=0",
			"useinbandfec=1",
			"apt=97",
			"packetization-mode=1;profile-level-id=4200",
			"packetization-mode=1;profile-level-id=42001F;level-asymmetry-allowed=0",
			"packetization-mode=01;profile-level-id=42001f",
			"=",
			"profile-id",
			"packetization-mode=1;profile-level-id=42e01f,x",
			"packetization-mode=1;profile-level-id=42e0 1f",
			"packetization-mode=1;profile-level-id=4",
			"packetization-mode=1;profile-level-id=",
			"packetization-mode=1;profile-level-id=42001",
			"profile-id=2x",
			"profile-id= ;profile=1",
			"profile=0;tier=0;level-idx=5",
			"profile=0x",
		)
	}

	var descs []c17Desc
	for _, m := range mimes {
		for _, cr := range clocks {
			for _, ch := range chans {
				for _, l := range lines {
					descs = append(descs, c17Desc{m, cr, ch, l})
				}
			}
		}
	}
	defaults := c17Defaults(t)
	if len(defaults) < 8 {
		vkit.Fatalf(t, "only %d default codecs extracted from RegisterDefaultCodecs", len(defaults))
	}
	if raw, ok := c.ReplayCase(); ok {
		// replay: only the recorded pair (or the recorded default codec)
		var pair struct {
			A *c17Desc `json:"a"`
			B *c17Desc `json:"b"`
		}
		var single c17Desc
		switch {
		case json.Unmarshal(raw, &pair) == nil && pair.A != nil && pair.B != nil:
			descs, defaults = []c17Desc{*pair.A, *pair.B}, nil
		case json.Unmarshal(raw, &single) == nil && single.Mime != "":
			descs, defaults = nil, []c17Desc{single}
		default:
			vkit.Fatalf(t, "replay case is neither a pair nor a codec description")
		}
	}
	replaying := os.Getenv("VERIF_REPLAY") != ""
	nProduct := len(descs)
	descs = append(descs, defaults...)
	c.Set("mimes", mimes)
	c.Set("clock_rates", clocks)
	c.Set("channels", chans)
	c.Set("fmtp_lines", lines)
	c.Set("default_codecs", len(defaults))
	c.Set("descriptions", len(descs))
	c.Set("ordered_pairs", len(descs)*len(descs))
	if !replaying {
		c.Sample(descs[2])
		c.Sample(descs[nProduct/2])
		c.Sample(defaults[0])
	}

	// Clause 3: every default codec matches itself (two independent parses).
	kinds := map[string]bool{}
	for _, d := range defaults {
		c.Eval()
		kinds[strings.ToLower(d.Mime)] = true
		d := d
		c.Guard("default "+vkit.Short(d), d, func() {
			if !d.parse().Match(d.parse()) {
				c.Violation("default-self|"+c17Class(d.Mime)+"|"+d.Line,
					fmt.Sprintf("default codec %s does not match itself", vkit.Short(d)), d)
			} else {
				c.Distinct("default-self|" + c17Class(d.Mime))
			}
		})
	}
	if !replaying && (!kinds["video/h264"] || !kinds["audio/opus"]) {
		vkit.Fatalf(t, "default codec extraction is incomplete: %v", kinds)
	}

	// Pre-parse every description and its three case variants once.
	type variant struct {
		name string
		f    FMTP
	}
	base := make([]FMTP, len(descs))
	vars := make([][]variant, len(descs))
	typ := make([]string, len(descs))
	for i, d := range descs {
		base[i] = d.parse()
		typ[i] = strings.TrimPrefix(fmt.Sprintf("%T", base[i]), "*fmtp.")
		for _, v := range []struct{ n, m string }{
			{"upper", strings.ToUpper(d.Mime)}, {"lower", strings.ToLower(d.Mime)}, {"alt", c17Alt(d.Mime)},
		} {
			if v.m == d.Mime {
				continue
			}
			dv := d
			dv.Mime = v.m
			vars[i] = append(vars[i], variant{v.n, dv.parse()})
		}
	}

	n := len(descs)
	vkit.Parallel(n, func(i int) {
		a := descs[i]
		pa := base[i]
		seen := map[string]bool{}
		for j := 0; j < n; j++ {
			b := descs[j]
			pb := base[j]
			rep := map[string]any{"a": a, "b": b}
			c.Guard("pair", rep, func() {
				r := pa.Match(pb)
				if back := pb.Match(pa); back != r {
					ms := []string{c17Class(a.Mime), c17Class(b.Mime)}
					sort.Strings(ms)
					same := "diff"
					if a.Line == b.Line {
						same = "same"
					}
					c.Violation(fmt.Sprintf("asym|%s|%s|fmtp=%s", ms[0], ms[1], same),
						fmt.Sprintf("A=%s B=%s: A.Match(B)=%v but B.Match(A)=%v", vkit.Short(a), vkit.Short(b), r, back), rep)
				}
				for _, v := range vars[i] {
					if got := v.f.Match(pb); got != r {
						c.Violation(fmt.Sprintf("case|%s|vs=%s|side=receiver", c17Class(a.Mime), c17Class(b.Mime)),
							fmt.Sprintf("A=%s B=%s: A.Match(B)=%v but with A's mime in %s case (%q) it is %v",
								vkit.Short(a), vkit.Short(b), r, v.name, v.f.MimeType(), got), rep)
					}
				}
				for _, v := range vars[j] {
					if got := pa.Match(v.f); got != r {
						c.Violation(fmt.Sprintf("case|%s|vs=%s|side=argument", c17Class(b.Mime), c17Class(a.Mime)),
							fmt.Sprintf("A=%s B=%s: A.Match(B)=%v but with B's mime in %s case (%q) it is %v",
								vkit.Short(a), vkit.Short(b), r, v.name, v.f.MimeType(), got), rep)
					}
				}
				k := fmt.Sprintf("%s~%s=%v", typ[i], typ[j], r)
				if !seen[k] {
					seen[k] = true
					c.Distinct(k)
					c.Outcome(fmt.Sprintf("%v", r))
				}
			})
		}
		c.EvalN(n)
	})
	if !replaying && c.Outcomes() < 2 {
		vkit.Fatalf(t, "vacuous: only one Match outcome observed")
	}
}
