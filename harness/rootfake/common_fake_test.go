package webrtc

// Helpers for data-channel harnesses on the environment fakes of pion/sctp and pion/datachannel
// (shim build + fakes; the remote peer's behaviour is decided by harness threads).

import (
	"testing"

	"github.com/pion/datachannel"
	"github.com/pion/dtls/v3"
	"github.com/pion/sctp"
	"github.com/pion/webrtc/v4/internal/verif/vkit"
	"github.com/pion/webrtc/v4/internal/verif/vsched"
)

func init() {
	sctp.Hooks.Wait = vsched.Wait
	sctp.Hooks.Go = vsched.Go
}

// vfNewX creates a PeerConnection with a fixed DTLS role. Role client: fixed by the answering-role setting. Role
// server: fixed by the peer's explicit role (the peer said a=setup:active, so this side is server) while the
// answering-role setting says CLIENT - the explicit remote role has precedence in DTLSTransport.role(), and code
// that asks the setting instead of the transport gets the wrong answer.
func vfNewX(tb testing.TB, role DTLSRole) *PeerConnection {
	setting := role
	if role == DTLSRoleServer {
		setting = DTLSRoleClient
	}
	api := vNewAPI(tb, vAPIOpts{setting: func(s *SettingEngine) {
		if err := s.SetAnsweringDTLSRole(setting); err != nil {
			vkit.Fatalf(tb, "role: %v", err)
		}
	}})
	pc := vNewPC(tb, api, nil)
	if role == DTLSRoleServer {
		pc.dtlsTransport.lock.Lock()
		pc.dtlsTransport.remoteParameters.Role = DTLSRoleClient
		pc.dtlsTransport.lock.Unlock()
		if got := pc.dtlsTransport.role(); got != DTLSRoleServer {
			vkit.Fatalf(tb, "harness: the DTLS role is %s, wanted server", got)
		}
	}

	return pc
}

// vfConnectSCTP runs the real SCTPTransport.Start over the fake association (the DTLS connection it
// insists on is a placeholder that is removed again before anyone can use it).
func vfConnectSCTP(x *PeerConnection) error {
	// the DTLS transport's lock is held across Start so that nobody (e.g. a concurrent Close) can see the placeholder
	t := x.dtlsTransport
	t.lock.Lock()
	defer t.lock.Unlock()
	t.conn = &dtls.Conn{}
	err := x.sctpTransport.Start(SCTPCapabilities{})
	t.conn = nil

	return err
}

// vfFake returns the fake channel under d (nil until the channel was dialled/accepted).
func vfFake(d *DataChannel) *datachannel.DataChannel {
	d.mu.RLock()
	defer d.mu.RUnlock()

	return d.dataChannel
}

// vfFakeRaw reads the field without taking the channel's lock (for scheduler conditions).
func vfFakeRaw(d *DataChannel) *datachannel.DataChannel { return d.dataChannel }

// vfRemoteOpen builds the environment event "the peer opens a reliable ordered channel".
func vfRemoteOpen(id uint16, label string) sctp.RemoteOpen {
	return sctp.RemoteOpen{StreamID: id, Payload: datachannel.Config{ChannelType: datachannel.ChannelTypeReliable, Priority: datachannel.ChannelPriorityNormal, Label: label}}
}

func init() { vUseVNet = true }
