package webrtc

// C21 (connected part) — Close / GracefulClose on a connection with an OPEN data channel whose read loop
// may be busy inside the user's OnMessage handler: every schedule (deviation / preemption bounded) on the
// real code over the environment fakes of pion/sctp and pion/datachannel.

import (
	"encoding/json"
	"fmt"
	"sort"
	"strings"
	"testing"
	"time"

	"github.com/pion/webrtc/v4/internal/verif/vkit"
	"github.com/pion/webrtc/v4/internal/verif/vsched"
)

type c21bScenario struct {
	Closers string `json:"closers"` // sequence per thread, threads separated by '|', e.g. "G", "C|G", "CG" (Close then GracefulClose in one thread)
	Busy    bool   `json:"busy"`    // a message is delivered and the OnMessage handler parks until released
}

func (s c21bScenario) name() string { return fmt.Sprintf("closers=%s|busy=%v", s.Closers, s.Busy) }

type c21bObs struct {
	x          *PeerConnection
	connStates []string
	released   bool
	inHandler  bool
	handled    int
}

func c21bBody(t *testing.T, sc c21bScenario) (func(), *c21bObs) {
	o := &c21bObs{}

	return func() {
		vsched.SetBranching(false)
		x := vfNewX(t, DTLSRoleClient)
		o.x = x
		x.OnConnectionStateChange(func(s PeerConnectionState) { o.connStates = append(o.connStates, s.String()) })
		d, err := x.CreateDataChannel("x", nil)
		if err != nil {
			vkit.Fatalf(t, "dc: %v", err)
		}
		d.OnMessage(func(DataChannelMessage) {
			vsched.Yield("user-handler")
			o.inHandler = true
			o.handled++
			if sc.Busy {
				vsched.Wait("handler-parked", func() bool { return o.released })
			}
			o.inHandler = false
		})
		if err = vfConnectSCTP(x); err != nil {
			vkit.Fatalf(t, "connect: %v", err)
		}
		vfFake(d).EnvAckOpen()
		vsched.Quiesce()
		if sc.Busy {
			vfFake(d).EnvDeliver([]byte("m"), false)
			vsched.Quiesce() // the read loop is now parked inside the handler
		}
		vsched.SetBranching(true)
		for i, prog := range strings.Split(sc.Closers, "|") {
			prog := prog
			vsched.GoNamed(fmt.Sprintf("closer%d-%s", i, prog), func() {
				for _, k := range prog {
					if k == 'G' {
						_ = x.GracefulClose()
						vsched.WatchRunningInternal()
					} else {
						_ = x.Close()
					}
				}
			})
		}
		if sc.Busy {
			vsched.GoNamed("env-release", func() { o.released = true })
		}
	}, o
}

func c21bJudge(sc c21bScenario, o *c21bObs, r *vsched.Result) (string, string) {
	if r.Outcome == vsched.Panicked {
		return "connected|panic|" + vfFirstFrame(r.PanicStack), "panic: " + r.PanicValue + "\n" + r.PanicStack
	}
	if r.Outcome != vsched.Completed {
		var b []string
		for _, x := range r.Blocked {
			b = append(b, x.Name+":"+x.Op)
		}

		return fmt.Sprintf("connected|%s|closers=%s|%s", r.Outcome, sc.Closers, strings.Join(b, ",")), fmt.Sprintf("scenario %s: not every call returned (%s): %v", sc.name(), r.Outcome, r.Blocked)
	}
	if s := o.x.SignalingState(); s != SignalingStateClosed {
		return "connected|signaling-not-closed", fmt.Sprintf("scenario %s: signaling state %s", sc.name(), s)
	}
	if s := o.x.ConnectionState(); s != PeerConnectionStateClosed {
		return "connected|connection-not-closed", fmt.Sprintf("scenario %s: connection state %s", sc.name(), s)
	}
	if len(r.Watched) > 0 {
		origins := map[string]bool{}
		for _, w := range r.Watched {
			origins[strings.SplitN(w, ":", 2)[0]] = true
		}
		var os []string
		for k := range origins {
			os = append(os, k)
		}
		sort.Strings(os)

		return "connected|goroutine-after-gracefulclose|started-in=" + strings.Join(os, "+"), fmt.Sprintf("scenario %s: goroutines started by the connection kept working after GracefulClose returned: %v", sc.name(), r.Watched)
	}

	return "", ""
}

func TestVerifC21Connected(t *testing.T) {
	c := vkit.New("C21", "model_checking")
	defer c.Finish(t)
	vsched.ICEMode.Store(vsched.ICEFailFast)
	scs := []c21bScenario{{"G", true}, {"CG", true}, {"C|G", true}, {"G|G", true}, {"G", false}, {"C|G", false}, {"C", true}}
	c.Rule(fmt.Sprintf("%d scenarios: Close/GracefulClose callers (one thread doing both, or concurrent threads) on a real PeerConnection with an OPEN data channel over the sctp/datachannel fakes, the read loop idle or parked inside the user's OnMessage handler (released by an environment thread at an arbitrary point); every schedule with <= 2/3 departures from the default schedule and 0-1(2) preemptions where tractable; oracle: every call returns, final states closed, and nothing started by the connection does more than release locks after GracefulClose returned", len(scs)))
	c.Assume("pion/sctp and pion/datachannel are environment fakes")
	deadline := c.Deadline(time.Duration(c.Pick(100, 900)) * time.Second)
	if raw, ok := c.ReplayCase(); ok {
		var rc struct {
			Scenario c21bScenario `json:"connected_scenario"`
			Choices  []int        `json:"choices"`
		}
		c.Eval()
		c.State("replay")
		c.Transition()
		c.Validated()
		if err := json.Unmarshal(raw, &rc); err != nil || rc.Scenario.Closers == "" {
			c.Distinct("replay-not-for-this-part")
			c.Distinct("replay")

			return
		}
		body, o := c21bBody(t, rc.Scenario)
		r := vsched.Run(vsched.Config{}, rc.Choices, nil, body)
		if key, what := c21bJudge(rc.Scenario, o, r); key != "" {
			c.Violation(key, what, rc)
		}
		c.Sample(rc)

		return
	}
	per := map[string]any{}
	for _, sc := range scs {
		sc := sc
		check := func(r *vsched.Result, obs any) bool {
			o, _ := obs.(*c21bObs)
			c.Eval()
			c.Validated()
			c.TransitionN(r.Steps)
			if r.Outcome == vsched.Nondeterminism || r.Outcome == vsched.Horizon {
				fmt.Printf("VERIF-NOTE C21 connected %s: %s %s\n", sc.name(), r.Outcome, r.PanicValue)
				c.NotExhaustive(sc.name() + ": " + r.Outcome.String())

				return true
			}
			key, what := c21bJudge(sc, o, r)
			ok := fmt.Sprintf("%s|%v|handled=%d|%s", sc.name(), o.connStates, o.handled, key)
			c.Outcome(ok)
			c.Distinct(ok)
			if key != "" {
				body2, o2 := c21bBody(t, sc)
				r2 := vsched.Run(vsched.Config{}, r.Choices, nil, body2)
				if key2, _ := c21bJudge(sc, o2, r2); key2 != key {
					c.NotExhaustive("irreproducible: " + key)

					return true
				}
				c.Violation(key, what, map[string]any{"connected_scenario": sc, "choices": r.Choices, "preemptions": r.Preemptions})
			}

			return true
		}
		per[sc.name()] = vpExplore(c, sc.name(), deadline, c.Pick(2, 3), func() (func(), any) { b, o := c21bBody(t, sc); return b, o }, check)
	}
	c.Set("scenarios", per)
	c.Sample(map[string]any{"scenario": scs[0], "threads": "closer{GracefulClose} || env{release the parked OnMessage handler} || readLoop (parked in handler) || accept loop"})
}
