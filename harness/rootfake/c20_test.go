package webrtc

// C20 — Data channel readyState only moves forward and events fire at most once.
// Every interleaving (preemption bounded) of opening, closing, peer events and PeerConnection.Close
// on real DataChannel / SCTPTransport / PeerConnection code over environment fakes of pion/sctp and
// pion/datachannel, under the controlled scheduler. The sequence of values stored into readyState is
// recorded exactly (every store is observed in schedule order).

import (
	"encoding/json"
	"fmt"
	"strings"
	"testing"
	"time"

	"github.com/pion/webrtc/v4/internal/verif/vkit"
	"github.com/pion/webrtc/v4/internal/verif/vsched"
)

type c20Scenario struct {
	Name string `json:"name"`
}

type c20Obs struct {
	x           *PeerConnection
	d           *DataChannel
	states      []string // values stored into readyState, in order
	opens       int
	closes      int
	msgs        int
	sendOK      []string // readyState values observed around a successful Send
	sendErr     int
	notes       []string
	remote      *DataChannel
	rstates     []string
	ropens      int
	rcloses     int
	closeCalled bool
	live        int // harness threads still running
	tornDown    bool
	finalBefore string       // readyState when the harness threads were done, before the teardown closed the connection
	lateOpens   int          // runs of an OnOpen handler registered after the channel was created (one registration)
	lateCloses  int          // same for OnClose
	second      *DataChannel // two-channel scenarios: the channel created after o.d
}

// env starts an environment thread: it waits for cond (or for the teardown) and then performs the event.
// Environment threads are not waited for by the teardown (a peer may simply be slow).
func (o *c20Obs) env(name string, cond func() bool, action func()) {
	vsched.GoNamed(name, func() {
		vsched.Wait(name+"-wait", func() bool { return o.tornDown || cond() })
		if !o.tornDown {
			action()
		}
	})
}

// c20Go starts a harness thread that the final teardown waits for.
func (o *c20Obs) goT(name string, f func()) {
	o.live++
	vsched.GoNamed(name, func() {
		defer func() { o.live-- }()
		f()
	})
}

var c20Rank = map[string]int{"connecting": 0, "open": 1, "closing": 2, "closed": 3}

func c20Watch(o *c20Obs, d *DataChannel, states *[]string, opens, closes *int) {
	vsched.WatchStores(&d.readyState, func(v any) {
		if s, ok := v.(DataChannelState); ok {
			*states = append(*states, s.String())
		}
	})
	// user handlers take time: each contains a scheduling point, so other threads may run meanwhile
	d.OnOpen(func() { vsched.Yield("user-handler"); *opens++ })
	d.OnClose(func() { vsched.Yield("user-handler"); *closes++ })
	d.OnMessage(func(DataChannelMessage) { vsched.Yield("user-handler"); o.msgs++ })
}

// c20Scenarios: name -> threads spawned after setup.
var c20Names = []string{
	"connect||Close+peerreset",
	"open:Close||peerreset||Send",
	"open:GracefulClose||pcClose",
	"open:pcClose||Close",
	"open:Close||Close",
	"open:message||Close+peerreset",
	"connecting:Close||connect",
	"remote-open||Close+peerreset",
	"open:peerreset||Send",
	"connect||pcClose",
	"late:OnOpen||ack",
	"late:OnClose||Close+peerreset",
	"open:two-channels:second-closed-while-connecting,first-Close+peerreset",
}

func c20Body(t *testing.T, name string) (func(), *c20Obs) {
	o := &c20Obs{}

	return func() {
		vsched.SetBranching(false)
		x := vfNewX(t, DTLSRoleClient)
		o.x = x
		var d *DataChannel
		if !strings.HasPrefix(name, "remote-open") {
			var err error
			d, err = x.CreateDataChannel("x", nil)
			if err != nil {
				vkit.Fatalf(t, "dc: %v", err)
			}
			o.d = d
			c20Watch(o, d, &o.states, &o.opens, &o.closes)
		}
		x.OnDataChannel(func(rd *DataChannel) {
			vsched.Yield("user-handler")
			o.remote = rd
			c20Watch(o, rd, &o.rstates, &o.ropens, &o.rcloses)
		})
		if strings.HasPrefix(name, "late:") {
			// a channel created on a connection whose SCTP association is already up: DATA_CHANNEL_OPEN goes
			// out at once and the channel is open before the peer's ACK has been processed
			if err := vfConnectSCTP(x); err != nil {
				vkit.Fatalf(t, "connect: %v", err)
			}
		}
		if strings.Contains(name, "two-channels") {
			// a SECOND channel, created after the first and closed while it is still connecting (no transport yet):
			// it stays closing until the connection's own Close moves it on
			second, err := x.CreateDataChannel("second", nil)
			if err != nil {
				vkit.Fatalf(t, "dc: %v", err)
			}
			o.second = second
			_ = second.Close()
		}
		preOpen := strings.HasPrefix(name, "open:")
		if preOpen || strings.HasPrefix(name, "remote-open") {
			if err := vfConnectSCTP(x); err != nil {
				vkit.Fatalf(t, "connect: %v", err)
			}
			if d != nil {
				vfFake(d).EnvAckOpen()
			}
		}
		vsched.Quiesce()
		vsched.SetBranching(true)

		// environment thread answering a local reset: the peer resets its side once we closed ours
		peerResetAfterClose := func(ch *DataChannel) {
			o.env("env-peerreset", func() bool {
				f := vfFakeRaw(ch)

				return f != nil && f.LocalClosed()
			}, func() { vfFakeRaw(ch).EnvPeerReset() })
		}
		send := func(ch *DataChannel) {
			o.goT("send", func() {
				before := ch.ReadyState().String()
				err := ch.Send([]byte("m"))
				after := ch.ReadyState().String()
				if err == nil {
					o.sendOK = append(o.sendOK, before+">"+after)
				} else {
					o.sendErr++
				}
			})
		}
		closeT := func(nm string, ch *DataChannel, graceful bool) {
			o.goT(nm, func() {
				o.closeCalled = true
				if graceful {
					_ = ch.GracefulClose()
				} else {
					_ = ch.Close()
				}
			})
		}
		switch name {
		case "connect||Close+peerreset":
			o.goT("connect", func() {
				if err := vfConnectSCTP(x); err != nil {
					o.notes = append(o.notes, err.Error())
				}
			})
			o.env("env-ack", func() bool { return vfFakeRaw(d) != nil }, func() { vfFakeRaw(d).EnvAckOpen() })
			closeT("closer", d, false)
			peerResetAfterClose(d)
		case "open:Close||peerreset||Send":
			closeT("closer", d, false)
			peerResetAfterClose(d)
			send(d)
		case "open:GracefulClose||pcClose":
			closeT("closer", d, true)
			peerResetAfterClose(d)
			o.goT("pcclose", func() { o.closeCalled = true; _ = x.Close() })
		case "open:pcClose||Close":
			o.goT("pcclose", func() { o.closeCalled = true; _ = x.Close() })
			closeT("closer", d, false)
		case "open:two-channels:second-closed-while-connecting,first-Close+peerreset":
			closeT("closer", d, false)
			peerResetAfterClose(d)
		case "open:Close||Close":
			closeT("closer1", d, false)
			closeT("closer2", d, false)
			peerResetAfterClose(d)
		case "open:message||Close+peerreset":
			o.env("env-msg", func() bool { return true }, func() { vfFakeRaw(d).EnvDeliver([]byte("hello"), true) })
			closeT("closer", d, false)
			peerResetAfterClose(d)
		case "connecting:Close||connect":
			closeT("closer", d, false)
			o.goT("connect", func() {
				if err := vfConnectSCTP(x); err != nil {
					o.notes = append(o.notes, err.Error())
				}
			})
		case "remote-open||Close+peerreset":
			a := x.sctpTransport.association()
			o.env("env-remote-open", func() bool { return true }, func() { a.EnvRemoteOpen(vfRemoteOpen(1, "r")) })
			o.goT("closer", func() {
				vsched.Wait("wait-remote", func() bool { return o.remote != nil })
				o.closeCalled = true
				_ = o.remote.Close()
			})
			o.env("env-peerreset", func() bool {
				return o.remote != nil && vfFakeRaw(o.remote) != nil && vfFakeRaw(o.remote).LocalClosed()
			}, func() { vfFakeRaw(o.remote).EnvPeerReset() })
		case "open:peerreset||Send":
			o.env("env-peerclose", func() bool { return true }, func() { vfFakeRaw(d).EnvPeerReset() })
			send(d)
		case "late:OnOpen||ack":
			// one registration made after the channel exists, racing with the peer's ACK
			o.goT("register", func() { d.OnOpen(func() { vsched.Yield("user-handler"); o.lateOpens++ }) })
			o.env("env-ack", func() bool { return vfFakeRaw(d) != nil }, func() { vfFakeRaw(d).EnvAckOpen() })
		case "late:OnClose||Close+peerreset":
			o.env("env-ack", func() bool { return vfFakeRaw(d) != nil }, func() { vfFakeRaw(d).EnvAckOpen() })
			o.goT("register", func() { d.OnClose(func() { vsched.Yield("user-handler"); o.lateCloses++ }) })
			closeT("closer", d, false)
			peerResetAfterClose(d)
		case "connect||pcClose":
			o.goT("connect", func() {
				if err := vfConnectSCTP(x); err != nil {
					o.notes = append(o.notes, err.Error())
				}
			})
			o.goT("pcclose", func() { o.closeCalled = true; _ = x.Close() })
		default:
			vkit.Fatalf(t, "unknown scenario %s", name)
		}
		// teardown: when every harness thread is done the connection is closed, which ends the association
		// and thereby the accept loop and the read loops (they would otherwise legitimately block for ever)
		vsched.GoNamed("teardown", func() {
			vsched.Wait("teardown-wait", func() bool { return o.live == 0 })
			o.tornDown = true
			if ch := o.d; ch != nil {
				if v, ok := ch.readyState.Peek().(DataChannelState); ok {
					o.finalBefore = v.String()
				}
			} else if o.remote != nil {
				if v, ok := o.remote.readyState.Peek().(DataChannelState); ok {
					o.finalBefore = v.String()
				}
			}
			_ = x.Close()
		})
	}, o
}

func c20Judge(name string, o *c20Obs, r *vsched.Result) (string, string) {
	if r.Outcome == vsched.Panicked {
		return "panic|" + vfFirstFrame(r.PanicStack), "panic: " + r.PanicValue + "\n" + r.PanicStack
	}
	if r.Outcome != vsched.Completed {
		var b []string
		envOnly := r.Outcome == vsched.Deadlock
		for _, x := range r.Blocked {
			b = append(b, x.Name+":"+x.Op)
			// threads waiting for the (fake) peer for ever are the environment's doing, not a defect:
			// the accept loop / a read loop of an association nobody aborts, and environment threads
			if !(x.Op == "sctp-accept" || x.Op == "dc-read" || strings.HasPrefix(x.Name, "env-") || x.Op == "not-started") {
				envOnly = false
			}
		}
		if !envOnly {
			return fmt.Sprintf("%s|%s", r.Outcome, strings.Join(b, ",")), fmt.Sprintf("scenario %s ended with %s: %v", name, r.Outcome, r.Blocked)
		}
	}
	check := func(who string, states []string, opens, closes int) (string, string) {
		prev := "connecting"
		for _, s := range states {
			if c20Rank[s] < c20Rank[prev] {
				return fmt.Sprintf("backward|%s->%s", prev, s), fmt.Sprintf("scenario %s (%s channel): readyState stores %v: moved from %s back to %s", name, who, states, prev, s)
			}
			prev = s
		}
		if opens > 1 {
			return "onopen-twice", fmt.Sprintf("scenario %s (%s channel): OnOpen ran %d times", name, who, opens)
		}
		if closes > 1 {
			return "onclose-twice", fmt.Sprintf("scenario %s (%s channel): OnClose ran %d times", name, who, closes)
		}

		return "", ""
	}
	if k, w := check("local", o.states, o.opens, o.closes); k != "" {
		return k, w
	}
	if k, w := check("remote", o.rstates, o.ropens, o.rcloses); k != "" {
		return k, w
	}
	if o.lateOpens > 1 {
		return "onopen-twice|late-registration", fmt.Sprintf("scenario %s: an OnOpen handler registered once, after the channel was created, ran %d times", name, o.lateOpens)
	}
	if o.lateCloses > 1 {
		return "onclose-twice|late-registration", fmt.Sprintf("scenario %s: an OnClose handler registered once, after the channel was created, ran %d times", name, o.lateCloses)
	}
	for _, s := range o.sendOK {
		// Send returned nil: the channel must have been open at some point during the call
		if !strings.Contains(s, "open") {
			return "send-ok-not-open|" + s, fmt.Sprintf("scenario %s: Send returned nil while readyState was %s (before>after), stores %v", name, s, o.states)
		}
	}
	// "Once Close has been called and the transport is gone, it ends in closed."
	if o.second != nil && o.second.ReadyState() != DataChannelStateClosed {
		return "not-closed-at-end|second-channel|" + o.second.ReadyState().String(),
			fmt.Sprintf("scenario %s: the second channel was closed while connecting and the connection is closed, but its readyState is %s", name, o.second.ReadyState())
	}
	ch := o.d
	if ch == nil {
		ch = o.remote
	}
	if ch != nil && o.closeCalled {
		// (b) after the teardown the whole connection (and its transport) is gone
		if ch.ReadyState() != DataChannelStateClosed {
			return "not-closed-at-end|" + ch.ReadyState().String(), fmt.Sprintf("scenario %s: Close was called and the connection is closed, but readyState is %s (stores %v)", name, ch.ReadyState(), o.states)
		}
	}

	return "", ""
}

func vfFirstFrame(stack string) string {
	for _, l := range strings.Split(stack, "\n") {
		if strings.Contains(l, "pion/webrtc/v4.") && !strings.Contains(l, "verif") && !strings.Contains(l, "zz_verif") {
			if i := strings.LastIndex(l, "("); i > 0 {
				l = l[:i]
			}
			if j := strings.LastIndex(l, "/"); j >= 0 {
				l = l[j+1:]
			}

			return l
		}
	}

	return "unknown"
}

func TestVerifC20(t *testing.T) {
	c := vkit.New("C20", "model_checking")
	defer c.Finish(t)
	vsched.ICEMode.Store(vsched.ICEFailFast)
	bound := c.Pick(2, 3)
	_ = bound
	c.Rule(fmt.Sprintf("%d scenarios of 2-4 threads (SCTP connect/open, Close, GracefulClose, PeerConnection.Close, Send, and environment threads delivering the peer's DCEP ack, messages and stream reset) on real DataChannel/SCTPTransport/PeerConnection code over fakes of pion/sctp and pion/datachannel; every schedule with <= %d departures from the default schedule (deviation bounding) plus every interleaving with 0 and, where tractable, 1-2 preemptions; oracle: the exact sequence of readyState stores never moves backward, OnOpen/OnClose run at most once, Send returning nil saw the channel open, and after Close + transport gone the state is closed; distinct = (scenario, store sequence, event counts)", len(c20Names), bound))
	c.Set("preemption_bound", bound)
	c.Assume("pion/sctp and pion/datachannel are replaced by environment fakes whose remote-side events are enumerated by harness threads; conformance of the fakes with the real libraries rests on reading their source (Dial returns at once, reads end with io.EOF only after the peer's reset, OnOpen fires from the reader when the ack is processed, Abort ends all reads with an error)")
	deadline := c.Deadline(time.Duration(c.Pick(150, 1200)) * time.Second)
	if raw, ok := c.ReplayCase(); ok {
		var rc struct {
			Scenario string `json:"scenario"`
			Choices  []int  `json:"choices"`
		}
		if err := json.Unmarshal(raw, &rc); err != nil {
			vkit.Fatalf(t, "replay: %v", err)
		}
		body, o := c20Body(t, rc.Scenario)
		r := vsched.Run(vsched.Config{}, rc.Choices, nil, body)
		c.Eval()
		c.State("replay")
		c.Transition()
		c.Validated()
		if key, what := c20Judge(rc.Scenario, o, r); key != "" {
			c.Violation(key, what, rc)
		}
		c.Sample(map[string]any{"scenario": rc.Scenario, "stores": o.states})

		return
	}
	per := map[string]any{}
	for _, name := range c20Names {
		name := name
		check := func(r *vsched.Result, obs any) bool {
			o, _ := obs.(*c20Obs)
			defer func() {
				if o.x != nil && r.Outcome == vsched.Completed {
					_ = o.x.Close()
				}
			}()
			c.Eval()
			c.Validated()
			c.TransitionN(r.Steps)
			if r.Outcome == vsched.Nondeterminism || r.Outcome == vsched.Horizon {
				fmt.Printf("VERIF-NOTE C20 %s: %s %s\n", name, r.Outcome, r.PanicValue)
				c.NotExhaustive(name + ": " + r.Outcome.String())

				return true
			}
			key, what := c20Judge(name, o, r)
			ok := fmt.Sprintf("%s|%v|%v|o%d c%d|%s", name, o.states, o.rstates, o.opens, o.closes, key)
			c.Outcome(ok)
			c.Distinct(ok)
			if key != "" {
				for k := 0; k < 2; k++ {
					body2, o2 := c20Body(t, name)
					r2 := vsched.Run(vsched.Config{}, r.Choices, nil, body2)
					key2, _ := c20Judge(name, o2, r2)
					if o2.x != nil && r2.Outcome == vsched.Completed {
						_ = o2.x.Close()
					}
					if key2 != key {
						fmt.Printf("VERIF-NOTE C20 %s: violation %q not reproducible (%q)\n", name, key, key2)
						c.NotExhaustive("irreproducible: " + key)

						return true
					}
				}
				c.Violation(key, what, map[string]any{"scenario": name, "choices": r.Choices, "preemptions": r.Preemptions, "stores": o.states})
			}

			return true
		}
		per[name] = vpExplore(c, name, deadline, c.Pick(2, 3), func() (func(), any) { b, o := c20Body(t, name); return b, o }, check)
	}
	c.Set("scenarios", per)
	c.Sample(map[string]any{"scenario": c20Names[1], "threads": "closer{d.Close()} || env{peer resets after our reset} || send{d.Send} || readLoop"})
}
