package webrtc

// C18 — Data channel stream ids are unique and follow the DTLS-role parity rule.
// (a) every history to a depth over {create (automatic id), create with an explicit id, channel opened
// by the peer, close, SCTP connect} for both DTLS roles; (b) every schedule (deviation / preemption
// bounded) of concurrent CreateDataChannel calls, peer-opened channels and the SCTP start — on the real
// DataChannel / SCTPTransport / PeerConnection code over environment fakes of pion/sctp and pion/datachannel.

import (
	"encoding/json"
	"fmt"
	"os"
	"strings"
	"testing"
	"time"

	"github.com/pion/webrtc/v4/internal/verif/vkit"
	"github.com/pion/webrtc/v4/internal/verif/vsched"
)

type c18Chan struct {
	d        *DataChannel
	explicit bool
	remote   bool
	firstID  *uint16
}

type c18Obs struct {
	x     *PeerConnection
	role  DTLSRole
	chans []*c18Chan
	notes []string
	bad   [][2]string
}

func (o *c18Obs) add(d *DataChannel, explicit, remote bool) *c18Chan {
	ch := &c18Chan{d: d, explicit: explicit, remote: remote}
	o.chans = append(o.chans, ch)

	return ch
}

// observe checks every channel's current id against the rules and remembers first ids.
func (o *c18Obs) observe(when string) {
	for i, ch := range o.chans {
		id := ch.d.ID()
		if id == nil {
			if ch.firstID != nil {
				o.bad = append(o.bad, [2]string{"id-changed|to-nil", fmt.Sprintf("%s: channel %d had id %d and now has none", when, i, *ch.firstID)})
			}

			continue
		}
		fresh := false
		if ch.firstID == nil {
			v := *id
			ch.firstID = &v
			fresh = true
		} else if *ch.firstID != *id {
			o.bad = append(o.bad, [2]string{"id-changed", fmt.Sprintf("%s: channel %d id changed from %d to %d", when, i, *ch.firstID, *id)})
		}
		if ch.explicit || ch.remote {
			continue // chosen by the user / by the peer: recorded as used, not judged
		}
		wantOdd := o.role != DTLSRoleClient
		if (*id%2 == 1) != wantOdd {
			o.bad = append(o.bad, [2]string{fmt.Sprintf("parity|role=%s", o.role), fmt.Sprintf("%s: channel %d got id %d with DTLS role %s", when, i, *id, o.role)})
		}
		if *id == 65535 {
			o.bad = append(o.bad, [2]string{"id-65535", fmt.Sprintf("%s: channel %d got id 65535", when, i)})
		}
		// uniqueness is judged when the id is generated: a user who LATER picks the same explicit id is not pion's doing
		for j, other := range o.chans {
			if !fresh {
				break
			}
			if j != i && other.d.ID() != nil && *other.d.ID() == *id {
				o.bad = append(o.bad, [2]string{fmt.Sprintf("duplicate|other-explicit=%v|other-remote=%v", other.explicit, other.remote), fmt.Sprintf("%s: channels %d and %d both have id %d", when, i, j, *id)})
			}
		}
	}
}

var c18Ops = []string{"auto", "exp0", "exp1", "exp2", "exp3", "exp65534", "remote", "close0", "close1", "connect"}

// c18RunHistory runs one history under a controller on the default schedule with quiescence after each step.
func c18RunHistory(t *testing.T, role DTLSRole, hist []string) (*c18Obs, *vsched.Result, bool) {
	o := &c18Obs{role: role}
	valid := true
	body := func() {
		vsched.SetBranching(false)
		x := vfNewX(t, role)
		o.x = x
		x.OnDataChannel(func(rd *DataChannel) { vsched.Yield("user-handler"); o.add(rd, false, true) })
		connected := false
		nremote := 0
		for i, op := range hist {
			switch {
			case op == "auto":
				d, err := x.CreateDataChannel(fmt.Sprintf("a%d", i), nil)
				if err != nil {
					o.notes = append(o.notes, err.Error())
				} else {
					o.add(d, false, false)
				}
			case strings.HasPrefix(op, "exp"):
				var id uint16
				fmt.Sscanf(op[3:], "%d", &id)
				neg := true
				d, err := x.CreateDataChannel(fmt.Sprintf("e%d", i), &DataChannelInit{ID: &id, Negotiated: &neg})
				if err != nil {
					o.notes = append(o.notes, err.Error())
				} else {
					o.add(d, true, false)
				}
			case op == "remote":
				if !connected {
					valid = false

					break
				}
				// the peer uses ids of ITS parity (opposite of ours) and never reuses one
				id := uint16(2*nremote + 100)
				if role == DTLSRoleClient {
					id++
				}
				nremote++
				x.sctpTransport.association().EnvRemoteOpen(vfRemoteOpen(id, fmt.Sprintf("r%d", i)))
			case strings.HasPrefix(op, "close"):
				var k int
				fmt.Sscanf(op[5:], "%d", &k)
				if k >= len(o.chans) {
					valid = false

					break
				}
				_ = o.chans[k].d.Close()
				if f := vfFakeRaw(o.chans[k].d); f != nil {
					f.EnvPeerReset()
				}
			case op == "connect":
				if connected {
					valid = false

					break
				}
				if err := vfConnectSCTP(x); err != nil {
					o.notes = append(o.notes, err.Error())
				}
				connected = true
			}
			if !valid {
				break
			}
			vsched.Quiesce()
			o.observe(fmt.Sprintf("history %v after step %d", hist, i))
		}
		_ = x.Close()
		vsched.Quiesce()
	}
	r := vsched.Run(vsched.Config{MaxSteps: 400000}, nil, nil, body)

	return o, r, valid
}

type c18Scenario struct {
	Role    string   `json:"role"`
	Threads []string `json:"threads"`
	PreConn bool     `json:"preconnected"`
	PreIDs  []uint16 `json:"pre_explicit_ids"`
}

func (s c18Scenario) name() string {
	return fmt.Sprintf("%s|pre=%v|ids=%v|%s", s.Role, s.PreConn, s.PreIDs, strings.Join(s.Threads, ","))
}

func c18Role(s string) DTLSRole {
	if s == "client" {
		return DTLSRoleClient
	}

	return DTLSRoleServer
}

func c18Body(t *testing.T, sc c18Scenario) (func(), *c18Obs) {
	o := &c18Obs{role: c18Role(sc.Role)}

	return func() {
		vsched.SetBranching(false)
		x := vfNewX(t, o.role)
		o.x = x
		x.OnDataChannel(func(rd *DataChannel) { vsched.Yield("user-handler"); o.add(rd, false, true) })
		for i, id := range sc.PreIDs {
			id := id
			neg := true
			d, err := x.CreateDataChannel(fmt.Sprintf("p%d", i), &DataChannelInit{ID: &id, Negotiated: &neg})
			if err == nil {
				o.add(d, true, false)
			}
		}
		if sc.PreConn {
			if err := vfConnectSCTP(x); err != nil {
				vkit.Fatalf(t, "connect: %v", err)
			}
		}
		vsched.Quiesce()
		vsched.SetBranching(true)
		live := 0
		for i, th := range sc.Threads {
			i, th := i, th
			live++
			vsched.GoNamed(fmt.Sprintf("t%d-%s", i, th), func() {
				defer func() { live-- }()
				switch th {
				case "create":
					d, err := x.CreateDataChannel(fmt.Sprintf("c%d", i), nil)
					if err != nil {
						o.notes = append(o.notes, err.Error())
					} else {
						o.add(d, false, false)
					}
				case "create2":
					for k := 0; k < 2; k++ {
						d, err := x.CreateDataChannel(fmt.Sprintf("c%d-%d", i, k), nil)
						if err == nil {
							o.add(d, false, false)
						}
					}
				case "connect":
					if err := vfConnectSCTP(x); err != nil {
						o.notes = append(o.notes, err.Error())
					}
				case "remote":
					vsched.Wait("remote-wait-assoc", func() bool { return x.sctpTransport.sctpAssociation != nil })
					id := uint16(100)
					if o.role == DTLSRoleClient {
						id++
					}
					x.sctpTransport.sctpAssociation.EnvRemoteOpen(vfRemoteOpen(id, "r"))
				}
			})
		}
		vsched.GoNamed("teardown", func() {
			vsched.Wait("teardown-wait", func() bool { return live == 0 })
			vsched.Quiesce()
			o.observe("scenario " + sc.name() + " at the end")
			_ = x.Close()
		})
	}, o
}

// c18Boundary — part (c): the id generator at the top of the id space. For both roles and for 0..3 ids of the
// role's parity left free below 65535 (all lower ids of that parity marked used, as after tens of thousands of
// channels: ids are never released), the generator is called until it refuses: every id it hands out has the
// role's parity, is below 65535 and was free; afterwards it keeps refusing.
func c18Boundary(c *vkit.Check) {
	for _, role := range []DTLSRole{DTLSRoleClient, DTLSRoleServer} {
		parity := uint16(0)
		if role != DTLSRoleClient {
			parity = 1
		}
		for free := 0; free <= 3; free++ {
			tr := &SCTPTransport{dataChannelIDsUsed: map[uint16]struct{}{}}
			// ids of the parity that may still be handed out: the `free` largest ones below 65535
			top := uint32(65534) // largest id that is not 65535
			if uint16(top)%2 != parity {
				top--
			}
			firstFree := top - 2*uint32(free) + 2 // ids >= firstFree (of the parity) stay free
			for id := uint32(parity); id < firstFree; id += 2 {
				tr.dataChannelIDsUsed[uint16(id)] = struct{}{} //nolint:gosec
			}
			var got []uint16
			for call := 0; call < free+2; call++ {
				var id *uint16
				err := tr.generateAndSetDataChannelID(role, &id)
				c.Eval()
				if err != nil || id == nil {
					continue
				}
				rep := map[string]any{"part": "boundary", "role": role.String(), "free_ids_below_65535": free, "handed_out": append(got, *id)}
				switch {
				case *id == 65535:
					c.Violation("boundary|id-65535|role="+role.String(), fmt.Sprintf("with every id of its parity below %d in use the generator handed out 65535 (role %s)", firstFree, role), rep)
				case *id%2 != parity:
					c.Violation("boundary|parity|role="+role.String(), fmt.Sprintf("role %s was handed id %d", role, *id), rep)
				case uint32(*id) < firstFree:
					c.Violation("boundary|duplicate|role="+role.String(), fmt.Sprintf("id %d was already in use (role %s)", *id, role), rep)
				}
				for _, g := range got {
					if g == *id {
						c.Violation("boundary|duplicate|role="+role.String(), fmt.Sprintf("id %d handed out twice (role %s)", *id, role), rep)
					}
				}
				got = append(got, *id)
			}
			c.Distinct(fmt.Sprintf("boundary|role=%s|free=%d|handed-out=%d", role, free, len(got)))
		}
	}
}

func TestVerifC18(t *testing.T) {
	c := vkit.New("C18", "model_checking")
	defer c.Finish(t)
	vsched.ICEMode.Store(vsched.ICEFailFast)
	depth := c.Pick(3, 4)
	scs := []c18Scenario{
		{"client", []string{"create", "create"}, true, nil},
		{"server", []string{"create", "create", "remote"}, true, nil},
		{"client", []string{"create", "connect"}, false, nil},
		{"server", []string{"create2", "connect"}, false, []uint16{1}},
		{"client", []string{"create", "create", "connect"}, false, []uint16{0, 2}},
		{"server", []string{"create", "remote", "create"}, true, []uint16{1, 3}},
	}
	c.Rule(fmt.Sprintf("(a) both DTLS roles x the full tree of histories to depth %d over %v (default schedule, scheduler quiescence and a full id audit after every step); (b) %d concurrent scenarios (2-3 threads creating channels, starting SCTP, peer-opened channel; explicit ids taken beforehand), every schedule with <= 2 (quick) / 3 (thorough) departures from the default schedule plus every interleaving with 0-1(2) preemptions where tractable; (c) the id generator at the top of the id space (0..3 ids of the role's parity left free below 65535) called until it refuses; oracle: every id generated by pion has the role's parity, is not 65535, is not held by another channel, and an id once set never changes; distinct = (role, history/scenario, resulting id assignment)", depth, c18Ops, len(scs)))
	c.Assume("pion/sctp and pion/datachannel are environment fakes; ids chosen by the user or by the peer are recorded as used but not judged; the peer uses ids of its own parity")
	if os.Getenv("VERIF_REPLAY") == "" {
		c18Boundary(c)
	}
	if raw, ok := c.ReplayCase(); ok {
		var rc struct {
			Role     string      `json:"role"`
			History  []string    `json:"history"`
			Scenario c18Scenario `json:"scenario"`
			Choices  []int       `json:"choices"`
		}
		if err := json.Unmarshal(raw, &rc); err != nil {
			vkit.Fatalf(t, "replay: %v", err)
		}
		c.Eval()
		c.State("replay")
		c.Transition()
		c.Validated()
		var o *c18Obs
		if len(rc.History) > 0 {
			o, _, _ = c18RunHistory(t, c18Role(rc.Role), rc.History)
		} else {
			var body func()
			body, o = c18Body(t, rc.Scenario)
			vsched.Run(vsched.Config{}, rc.Choices, nil, body)
		}
		for _, b := range o.bad {
			c.Violation(b[0], b[1], rc)
		}
		c.Sample(rc)

		return
	}
	// (a) histories
	for _, role := range []DTLSRole{DTLSRoleClient, DTLSRoleServer} {
		frontier := [][]string{{}}
		for d := 1; d <= depth; d++ {
			var jobs [][]string
			for _, h := range frontier {
				for _, op := range c18Ops {
					jobs = append(jobs, append(append([]string{}, h...), op))
				}
			}
			keep := make([]bool, len(jobs))
			vkit.Parallel(len(jobs), func(i int) {
				o, r, valid := c18RunHistory(t, role, jobs[i])
				if !valid {
					return
				}
				keep[i] = true
				c.Eval()
				c.Validated()
				c.Transition()
				if r.Outcome != vsched.Completed {
					c.Violation("history-"+r.Outcome.String(), fmt.Sprintf("role %s history %v ended with %s: %v %s", role, jobs[i], r.Outcome, r.Blocked, r.PanicValue), map[string]any{"role": role.String(), "history": jobs[i]})

					return
				}
				ids := []string{}
				for _, ch := range o.chans {
					if id := ch.d.ID(); id != nil {
						ids = append(ids, fmt.Sprint(*id))
					} else {
						ids = append(ids, "-")
					}
				}
				c.State(fmt.Sprintf("%s|%v", role, ids))
				c.Distinct(fmt.Sprintf("%s|%v|%v", role, jobs[i], ids))
				for _, b := range o.bad {
					c.Violation(b[0], b[1], map[string]any{"role": role.String(), "history": jobs[i]})
				}
				if i%211 == 0 && len(jobs[i]) == 3 {
					c.Sample(map[string]any{"role": role.String(), "history": jobs[i], "ids": ids})
				}
			})
			var next [][]string
			for i, k := range keep {
				if k {
					next = append(next, jobs[i])
				}
			}
			frontier = next
			c.Add(fmt.Sprintf("histories_depth_%d", d), len(next))
		}
	}
	// (b) schedules
	deadline := c.Deadline(time.Duration(c.Pick(120, 900)) * time.Second)
	per := map[string]any{}
	for _, sc := range scs {
		sc := sc
		check := func(r *vsched.Result, obs any) bool {
			o, _ := obs.(*c18Obs)
			c.Eval()
			c.Validated()
			c.TransitionN(r.Steps)
			if r.Outcome == vsched.Nondeterminism || r.Outcome == vsched.Horizon {
				fmt.Printf("VERIF-NOTE C18 %s: %s %s\n", sc.name(), r.Outcome, r.PanicValue)
				c.NotExhaustive(sc.name() + ": " + r.Outcome.String())

				return true
			}
			if r.Outcome != vsched.Completed {
				envOnly := r.Outcome == vsched.Deadlock
				for _, x := range r.Blocked {
					if !(x.Op == "sctp-accept" || x.Op == "dc-read" || x.Op == "not-started") {
						envOnly = false
					}
				}
				if !envOnly {
					c.Violation(fmt.Sprintf("%s|%s", sc.name(), r.Outcome), fmt.Sprintf("scenario %s ended with %s: %v %s", sc.name(), r.Outcome, r.Blocked, r.PanicValue), map[string]any{"scenario": sc, "choices": r.Choices})
				}

				return true
			}
			ids := []string{}
			for _, ch := range o.chans {
				if id := ch.d.ID(); id != nil {
					ids = append(ids, fmt.Sprint(*id))
				}
			}
			c.Outcome(fmt.Sprintf("%s|%v", sc.name(), ids))
			c.Distinct(fmt.Sprintf("%s|%v", sc.name(), ids))
			for _, b := range o.bad {
				c.Violation(b[0], b[1], map[string]any{"scenario": sc, "choices": r.Choices, "preemptions": r.Preemptions})
			}

			return true
		}
		per[sc.name()] = vpExplore(c, sc.name(), deadline, c.Pick(2, 3), func() (func(), any) { b, o := c18Body(t, sc); return b, o }, check)
	}
	c.Set("scenarios", per)
}
