package h264reader

// C34 — Annex-B readers (H.264 and H.265) return exactly the framed NAL units.
//
// Bounded exhaustive enumeration on the real readers. The harness lives in
// package h264reader and drives the H.265 reader through its exported API.
//
//   part 1 (sequences): every sequence of NAL units up to a length bound over
//     (unit type x payload shape), every assignment of 3-/4-byte start codes,
//     every chunk size of the delivering stream, SEI inclusion on/off.
//   part 2 (headers): every NAL header (256 first bytes for H.264, every
//     two-byte header for H.265) alone / first / last in a stream.
//
// Oracle: the generated units themselves (the stream is built from them and is
// re-split by an own Annex-B splitter to prove that it is unambiguous: no
// emulated start code, no trailing zero byte), minus SEI when inclusion is
// off; header fields are recomputed by own bit arithmetic on the header bytes.

import (
	"bytes"
	"fmt"
	"io"
	"runtime/debug"
	"strings"
	"sync"
	"sync/atomic"
	"testing"

	"github.com/pion/webrtc/v4/internal/verif/vkit"
	"github.com/pion/webrtc/v4/pkg/media/h265reader"
)

// ---------------------------------------------------------------- stream side

// c34ChunkReader delivers data in chunks: the i-th Read returns at most
// sizes[i%len] bytes (0 = no limit). End of data is (0, io.EOF).
type c34ChunkReader struct {
	data  []byte
	sizes []int
	n     int
}

func (r *c34ChunkReader) Read(p []byte) (int, error) {
	if len(r.data) == 0 {
		return 0, io.EOF
	}
	k := r.sizes[r.n%len(r.sizes)]
	r.n++
	if k == 0 || k > len(r.data) {
		k = len(r.data)
	}
	if k > len(p) {
		k = len(p)
	}
	copy(p, r.data[:k])
	r.data = r.data[k:]

	return k, nil
}

type c34Chunking struct {
	Name  string
	Sizes []int
}

// class is the chunking class used in violation keys: chunks of at most 5
// bytes (start codes and units straddle reads) or of at least 4095 bytes.
func (ch c34Chunking) class() string {
	if ch.Sizes[0] == 0 || ch.Sizes[0] > 5 {
		return "large"
	}

	return "small"
}

// c34Split is the own Annex-B splitter: units are the bytes between start
// codes 00 00 01; one zero byte directly before a start code belongs to it
// (4-byte form). Anything else before the first start code is an error.
func c34Split(b []byte) ([][]byte, error) {
	var starts, ends []int // ends[i] = index of the first byte of the start code (incl. leading zero)
	for i := 0; i+2 < len(b); {
		if b[i] == 0 && b[i+1] == 0 && b[i+2] == 1 {
			e := i
			if i > 0 && b[i-1] == 0 {
				e = i - 1
			}
			ends = append(ends, e)
			starts = append(starts, i+3)
			i += 3

			continue
		}
		i++
	}
	if len(starts) == 0 {
		return nil, fmt.Errorf("no start code")
	}
	if ends[0] != 0 {
		return nil, fmt.Errorf("garbage before the first start code")
	}
	var out [][]byte
	for k, s := range starts {
		e := len(b)
		if k+1 < len(ends) {
			e = ends[k+1]
		}
		if e < s {
			return nil, fmt.Errorf("overlapping start codes")
		}
		out = append(out, b[s:e])
	}

	return out, nil
}

// c34Clean reports whether a unit is inside the property's domain: non-empty,
// no 00 00 00/01/02 inside, last byte non-zero.
func c34Clean(u []byte) bool {
	if len(u) == 0 || u[len(u)-1] == 0 {
		return false
	}
	for i := 0; i+2 < len(u); i++ {
		if u[i] == 0 && u[i+1] == 0 && u[i+2] <= 2 {
			return false
		}
	}

	return true
}

// ---------------------------------------------------------------- unit domain

type c34Unit struct {
	Type  string
	Shape string
	SEI   bool
	Data  []byte
}

type c34TypeDef struct {
	Name string
	Hdr  []byte
	SEI  bool
}

var c34Shapes = []string{"hdr-only", "hdr+1", "escapes", "medium100", "10KiB"}

// c34Body returns the bytes after the header for a shape.
func c34Body(shape string, salt int) []byte {
	switch shape {
	case "hdr-only":
		return nil
	case "hdr+1":
		return []byte{0x80}
	case "escapes":
		// emulation-prevention bytes, lone zeros, a lone 01 after one zero
		return []byte{0x01, 0x00, 0x01, 0x00, 0x00, 0x03, 0x00, 0x00, 0x03, 0x01, 0x80}
	}
	n := 98
	if shape == "10KiB" {
		n = 10240 - 2
	}
	b := make([]byte, n)
	for i := range b {
		v := byte((i*11 + salt*29 + i/97) & 0xff)
		if v <= 3 {
			v += 0x40
		}
		switch {
		case i%19 == 7:
			v = 0 // lone zero
		case i%19 == 8:
			v = 1 // 00 01 is no start code
		case i%211 == 100 || i%211 == 101:
			v = 0
		case i%211 == 102:
			v = 3 // 00 00 03
		}
		b[i] = v
	}
	// keep the escapes intact and the end non-zero
	for i := 0; i+2 < len(b); i++ {
		if b[i] == 0 && b[i+1] == 0 && b[i+2] <= 2 {
			b[i+1] = 0x55
		}
	}
	b[len(b)-1] = 0x9c

	return b
}

func c34Units(types []c34TypeDef, shapes []string) []c34Unit {
	var out []c34Unit
	for ti, td := range types {
		for si, sh := range shapes {
			d := append(append([]byte{}, td.Hdr...), c34Body(sh, ti*7+si)...)
			out = append(out, c34Unit{Type: td.Name, Shape: sh, SEI: td.SEI, Data: d})
			if sh == "hdr-only" && len(td.Hdr) > 1 {
				// H.265: a unit of ONE byte (the statement's range starts at 1 byte): the type bits are in that byte
				out = append(out, c34Unit{Type: td.Name, Shape: "first-header-byte-only", SEI: td.SEI, Data: append([]byte{}, td.Hdr[:1]...)})
			}
		}
	}

	return out
}

var c34H264Types = []c34TypeDef{
	{"SPS", []byte{0x67}, false},
	{"PPS", []byte{0x68}, false},
	{"IDR", []byte{0x65}, false},
	{"nonIDR", []byte{0x41}, false},
	{"SEI", []byte{0x06}, true},
	{"AUD", []byte{0x09}, false},
}

var c34H265Types = []c34TypeDef{
	{"VPS", []byte{0x40, 0x01}, false},
	{"SPS", []byte{0x42, 0x01}, false},
	{"PPS", []byte{0x44, 0x01}, false},
	{"IDR", []byte{0x26, 0x01}, false},
	{"TRAIL", []byte{0x02, 0x01}, false},
	{"PSEI", []byte{0x4e, 0x01}, true},
	{"SSEI", []byte{0x50, 0x02}, true},
	{"AUD", []byte{0x46, 0x01}, false},
}

// ---------------------------------------------------------------- running the real readers

type c34Got struct {
	Data   []byte
	Fields [4]int // h264: F, RefIdc, UnitType, -1 ; h265: F, NalUnitType, LayerID, TemporalIDPlus1
}

func c34Bool(b bool) int {
	if b {
		return 1
	}

	return 0
}

// c34Run264 returns the units NextNAL delivered and whether the stream ended
// cleanly (nil unit) within the call budget.
func c34Run264(stream []byte, ch c34Chunking, includeSEI bool, budget int) ([]c34Got, bool, error) {
	rd, err := NewReaderWithOptions(&c34ChunkReader{data: stream, sizes: ch.Sizes}, WithIncludeSEI(includeSEI))
	if err != nil {
		return nil, false, err
	}
	var out []c34Got
	for i := 0; i < budget; i++ {
		nal, err := rd.NextNAL()
		if nal == nil {
			return out, true, err
		}
		out = append(out, c34Got{Data: nal.Data, Fields: [4]int{c34Bool(nal.ForbiddenZeroBit), int(nal.RefIdc), int(nal.UnitType), -1}})
	}

	return out, false, nil
}

func c34Run265(stream []byte, ch c34Chunking, includeSEI bool, budget int) ([]c34Got, bool, error) {
	rd, err := h265reader.NewReaderWithOptions(&c34ChunkReader{data: stream, sizes: ch.Sizes}, h265reader.WithIncludeSEI(includeSEI))
	if err != nil {
		return nil, false, err
	}
	var out []c34Got
	for i := 0; i < budget; i++ {
		nal, err := rd.NextNAL()
		if nal == nil {
			return out, true, err
		}
		out = append(out, c34Got{Data: nal.Data, Fields: [4]int{c34Bool(nal.ForbiddenZeroBit), int(nal.NalUnitType), int(nal.LayerID), int(nal.TemporalIDPlus1)}})
	}

	return out, false, nil
}

// c34Fields is the own header arithmetic (on the header taken as one integer).
func c34Fields(codec string, u []byte) ([4]int, [4]string, bool) {
	if codec == "h264" {
		v := int(u[0])

		return [4]int{v / 128, (v / 32) % 4, v % 32, -1}, [4]string{"ForbiddenZeroBit", "RefIdc", "UnitType", ""}, true
	}
	if len(u) < 2 {
		return [4]int{}, [4]string{}, false // no complete header: the statement is silent
	}
	v := int(u[0])*256 + int(u[1])

	return [4]int{v >> 15, (v >> 9) % 64, (v >> 3) % 64, v % 8}, [4]string{"ForbiddenZeroBit", "NalUnitType", "LayerID", "TemporalIDPlus1"}, true
}

type c34Case struct {
	Codec      string   `json:"codec"`
	Units      []string `json:"units"`
	StartCodes []int    `json:"start_code_widths"`
	Chunking   string   `json:"chunking"`
	IncludeSEI bool     `json:"include_sei"`
	StreamHex  string   `json:"stream_hex_prefix"`
}

func c34Pos(i, n int) string {
	switch {
	case i == n-1:
		return "last"
	case i == 0:
		return "first"
	default:
		return "middle"
	}
}

// c34Eval runs one case and reports at most one violation for it.
func c34Eval(c *vkit.Check, codec string, units []c34Unit, widths []int, ch c34Chunking, includeSEI bool) {
	c.Eval()
	// viol reports a violation class once per run (the replay case is only built then)
	var mk func() c34Case
	viol := func(key string, what func() string) {
		if _, seen := c34ViolSeen.LoadOrStore(key, true); !seen {
			c.Violation(key, what(), mk())
		}
	}
	var stream []byte
	for i, u := range units {
		if widths[i] == 4 {
			stream = append(stream, 0)
		}
		stream = append(stream, 0, 0, 1)
		stream = append(stream, u.Data...)
	}
	mk = func() c34Case {
		names := make([]string, len(units))
		for i, u := range units {
			names[i] = u.Type + "/" + u.Shape
		}

		return c34Case{codec, names, widths, ch.Name, includeSEI, fmt.Sprintf("%x", stream[:min(len(stream), 96)])}
	}
	// the case must be inside the domain of the statement: prove it with the own splitter
	split, err := c34Split(stream)
	inDomain := err == nil && len(split) == len(units)
	for i := 0; inDomain && i < len(units); i++ {
		inDomain = bytes.Equal(split[i], units[i].Data) && c34Clean(units[i].Data)
	}
	if !inDomain {
		atomic.AddInt64(&c34Skipped, 1)

		return
	}
	var want []c34Unit
	var wantIdx []int
	for i, u := range units {
		if u.SEI && !includeSEI {
			continue
		}
		want = append(want, u)
		wantIdx = append(wantIdx, i)
	}
	sei := func() string {
		if includeSEI {
			return "on"
		}

		return "off"
	}()

	var got []c34Got
	var ended bool
	var rerr error
	panicked := true
	func() {
		defer func() {
			if r := recover(); r != nil {
				viol("panic|"+vkit.PanicSite(),
					func() string { return fmt.Sprintf("panic in code under test: %v (case %s)", r, vkit.Short(mk())) })
			}
		}()
		if codec == "h264" {
			got, ended, rerr = c34Run264(stream, ch, includeSEI, len(units)+2)
		} else {
			got, ended, rerr = c34Run265(stream, ch, includeSEI, len(units)+2)
		}
		panicked = false
	}()
	if panicked {
		return
	}
	_ = rerr
	n := len(units)
	// walk both lists
	gi := 0
	for wi, w := range want {
		if gi >= len(got) {
			viol(fmt.Sprintf("%s|unit-missing|pos=%s|chunks=%s", codec, c34Pos(wantIdx[wi], n), ch.class()),
				func() string {
					return fmt.Sprintf("reader returned %d units, expected %d: unit %d (%s/%s) missing (err=%v)", len(got), len(want), wantIdx[wi], w.Type, w.Shape, rerr)
				})

			return
		}
		g := got[gi]
		if !bytes.Equal(g.Data, w.Data) {
			// is it an SEI that should have been skipped?
			for k := 0; k < n; k++ {
				if units[k].SEI && !includeSEI && bytes.Equal(units[k].Data, g.Data) && (wi == 0 || k > wantIdx[wi-1]) && k < wantIdx[wi] {
					viol(fmt.Sprintf("%s|sei=off|sei-returned|pos=%s", codec, c34Pos(k, n)),
						func() string {
							return fmt.Sprintf("SEI inclusion off, but SEI unit %d of %d (%s) was returned", k, n, units[k].Shape)
						})

					return
				}
			}
			viol(fmt.Sprintf("%s|data-mismatch|sc=%d|chunks=%s", codec, widths[wantIdx[wi]], ch.class()),
				func() string {
					return fmt.Sprintf("unit %d (%s/%s): got %d bytes %x…, want %d bytes %x…", wantIdx[wi], w.Type, w.Shape, len(g.Data), g.Data[:min(len(g.Data), 12)], len(w.Data), w.Data[:min(len(w.Data), 12)])
				})

			return
		}
		if f, names, ok := c34Fields(codec, w.Data); ok {
			for k := 0; k < 4; k++ {
				if names[k] != "" && f[k] != g.Fields[k] {
					viol(fmt.Sprintf("%s|header-field=%s", codec, names[k]),
						func() string {
							return fmt.Sprintf("unit %d header %x: %s = %d, header bits say %d", wantIdx[wi], w.Data[:min(len(w.Data), 2)], names[k], g.Fields[k], f[k])
						})

					return
				}
			}
		}
		gi++
	}
	if gi < len(got) {
		g := got[gi]
		for k := n - 1; k >= 0; k-- {
			if units[k].SEI && !includeSEI && bytes.Equal(units[k].Data, g.Data) && (len(wantIdx) == 0 || k > wantIdx[len(wantIdx)-1]) {
				viol(fmt.Sprintf("%s|sei=off|sei-returned|pos=%s", codec, c34Pos(k, n)),
					func() string {
						return fmt.Sprintf("SEI inclusion off, but SEI unit %d of %d (%s, the stream ends after it) was returned", k, n, units[k].Shape)
					})

				return
			}
		}
		viol(fmt.Sprintf("%s|extra-unit|chunks=%s", codec, ch.class()),
			func() string {
				return fmt.Sprintf("reader returned %d units, expected %d; extra unit of %d bytes %x…", len(got), len(want), len(g.Data), g.Data[:min(len(g.Data), 12)])
			})

		return
	}
	if !ended {
		viol(fmt.Sprintf("%s|no-end-of-stream", codec),
			func() string { return "reader keeps returning units after the last one" })

		return
	}
	var tb strings.Builder
	tb.WriteString(codec)
	tb.WriteByte('|')
	for _, u := range units {
		tb.WriteString(u.Type)
		tb.WriteByte(',')
	}
	tb.WriteString("|sei=")
	tb.WriteString(sei)
	key := tb.String()
	if _, seen := c34Seen.LoadOrStore(key, true); !seen {
		c.Distinct(key)
		c.Outcome(fmt.Sprintf("%s|sei=%s|returned=%d/%d", codec, sei, len(got), n))
	}
}

// c34Seen / c34ViolSeen keep the shared accounting maps of vkit out of the hot path.
var c34Seen, c34ViolSeen sync.Map

// ---------------------------------------------------------------- the check

var c34Skipped int64 // generated cases the own splitter found outside the domain (must stay 0)

func TestVerifC34(t *testing.T) {
	debug.SetGCPercent(400) // millions of short-lived readers: collect less often
	c := vkit.New("C34", "exploration")
	defer c.Finish(t)
	c.Rule("part 1: every sequence of NAL units up to the length bound over (unit type x payload shape) x every assignment of 3-/4-byte start codes x every chunking of the stream x SEI inclusion on/off, for the H.264 and the H.265 reader; " +
		"part 2: every NAL header value (H.264: 256 first bytes; H.265: all 65536 two-byte headers in the thorough tier) alone/first/last in a stream; " +
		"part 3: every in-domain unit body of length 1..5 (thorough 6) over the bytes {00,01,02,03,80} between two ordinary units x start-code widths x chunkings {1,3,whole}. " +
		"A case is counted as distinct by (codec, sequence of unit types, SEI inclusion) resp. (codec, header class, position); it is non-trivial when the own splitter confirmed it lies in the domain (no emulated start code, no trailing zero) and the real reader was run on it")
	c.Assume("the delivering stream returns data and io.EOF in separate Read calls (a final Read returning n>0 together with io.EOF is not part of the enumerated chunkings)")
	c.Assume("H.265 units shorter than the two header bytes are checked for their bytes only, not for parsed header fields")

	quick := c.Quick()

	chunkings := []c34Chunking{
		{"1", []int{1}}, {"2", []int{2}}, {"3", []int{3}}, {"4", []int{4}}, {"5", []int{5}},
		{"4095", []int{4095}}, {"whole", []int{0}}, {"cycle-1-2-3", []int{1, 2, 3}},
	}
	chunkNames := []string{}
	for _, ch := range chunkings {
		chunkNames = append(chunkNames, ch.Name)
	}
	c.Set("chunkings", chunkNames)
	c.Set("shapes", c34Shapes)

	type codecDef struct {
		name  string
		types []c34TypeDef
	}
	codecs := []codecDef{{"h264", c34H264Types}, {"h265", c34H265Types}}

	// ---- part 1
	type plan struct {
		length int
		shapes []string
		types  map[string]bool // nil = all types of the codec
	}
	var plans []plan
	// the longest sequences only over the types the readers distinguish (SEI / not SEI, parameter set / slice)
	few := map[string]bool{"SPS": true, "IDR": true, "SEI": true, "PSEI": true, "SSEI": true}
	if quick {
		few["TRAIL"], few["nonIDR"] = true, true
		plans = []plan{{1, c34Shapes, nil}, {2, c34Shapes, nil}, {3, c34Shapes[:3], few}}
	} else {
		plans = []plan{
			{1, c34Shapes, nil},
			{2, c34Shapes, nil},
			{3, c34Shapes[:4], nil},
			{3, []string{"hdr+1", "10KiB"}, few}, // 10 KiB units (several buffer refills) at every position of a triple
			{4, c34Shapes[:3], few},
		}
	}
	planText := []string{}
	for _, p := range plans {
		tt := "all types"
		if p.types != nil {
			tt = "types SPS, IDR and the SEI types"
			if quick {
				tt = "types SPS, IDR, non-IDR/TRAIL and the SEI types"
			}
		}
		planText = append(planText, fmt.Sprintf("len=%d over %s x shapes %v", p.length, tt, p.shapes))
	}
	c.Set("sequence_plans", planText)

	for _, cd := range codecs {
		typeNames := []string{}
		for _, td := range cd.types {
			typeNames = append(typeNames, td.Name)
		}
		c.Set(cd.name+"_types", typeNames)
		for _, p := range plans {
			types := cd.types
			if p.types != nil {
				types = nil
				for _, td := range cd.types {
					if p.types[td.Name] {
						types = append(types, td)
					}
				}
			}
			units := c34Units(types, p.shapes)
			if cd.name == "h265" && p.length <= 2 {
				// an H.265 unit of one byte (incomplete header): bytes only
				units = append(units, c34Unit{Type: "TRAIL", Shape: "1-byte", Data: []byte{0x02}})
			}
			dims := []int{}
			for i := 0; i < p.length; i++ {
				dims = append(dims, len(units), 2)
			}
			dims = append(dims, len(chunkings), 2)
			total := vkit.ProductSize(dims...)
			c.Add(cd.name+"_sequence_cases", total)
			codec := cd.name
			length := p.length
			vkit.Parallel(total, func(i int) {
				ix := vkit.ProductIndex(i, dims...)
				us := make([]c34Unit, length)
				ws := make([]int, length)
				for k := 0; k < length; k++ {
					us[k] = units[ix[2*k]]
					ws[k] = 3 + ix[2*k+1]
				}
				c34Eval(c, codec, us, ws, chunkings[ix[2*length]], ix[2*length+1] == 1)
			})
		}
	}
	c.Sample(c34Case{"h264", []string{"SPS/hdr+1", "SEI/escapes"}, []int{4, 3}, "3", false, "0000000167800000010601000100000300000301 80"})
	c.Sample(c34Case{"h265", []string{"PSEI/10KiB", "IDR/hdr-only", "SSEI/medium100"}, []int{3, 4, 3}, "cycle-1-2-3", false, "(10 KiB unit first)"})

	// ---- part 2: every header value
	hdrChunk := []c34Chunking{chunkings[6]}
	positions := []string{"alone", "last"}
	if !quick {
		hdrChunk = []c34Chunking{chunkings[0], chunkings[6]}
		positions = []string{"alone", "first", "last"}
	}
	other264 := c34Unit{Type: "IDR", Shape: "hdr+1", Data: []byte{0x65, 0x88}}
	other265 := c34Unit{Type: "IDR", Shape: "hdr+1", Data: []byte{0x26, 0x01, 0x88}}
	evalHdr := func(codec string, u c34Unit, other c34Unit) {
		for _, pos := range positions {
			for w := 3; w <= 4; w++ {
				for _, ch := range hdrChunk {
					for _, inc := range []bool{false, true} {
						switch pos {
						case "alone":
							c34Eval(c, codec, []c34Unit{u}, []int{w}, ch, inc)
						case "first":
							c34Eval(c, codec, []c34Unit{u, other}, []int{w, 7 - w}, ch, inc)
						default:
							c34Eval(c, codec, []c34Unit{other, u}, []int{7 - w, w}, ch, inc)
						}
					}
				}
			}
		}
	}
	vkit.Parallel(256, func(b int) {
		u := c34Unit{Type: fmt.Sprintf("type%d", b%32), Shape: "hdr+1", SEI: b%32 == 6, Data: []byte{byte(b), 0x80}}
		evalHdr("h264", u, other264)
	})
	c.Set("h264_header_values", 256)
	second := []int{0x00, 0x01, 0x02, 0x07, 0x08, 0x0f, 0x10, 0x7f, 0x80, 0xf8, 0xf9, 0xff}
	if !quick {
		second = second[:0]
		for b := 0; b < 256; b++ {
			second = append(second, b)
		}
	}
	c.Set("h265_header_values", 256*len(second))
	vkit.Parallel(256*len(second), func(i int) {
		b0, b1 := i/len(second), second[i%len(second)]
		t := (b0 / 2) % 64
		u := c34Unit{Type: fmt.Sprintf("type%d", t), Shape: "hdr+1", SEI: t == 39 || t == 40, Data: []byte{byte(b0), byte(b1), 0x80}}
		evalHdr("h265", u, other265)
	})
	c.Sample(c34Case{"h265", []string{"IDR/hdr+1", "type39/hdr+1"}, []int{4, 3}, "whole", false, "000000012601880000014e0180"})

	// ---- part 3: every payload over the bytes a start-code scanner treats specially
	// all byte strings of length 1..L over {00, 01, 02, 03, 80} that lie in the domain (no emulated start code, no
	// trailing zero) as the body of a slice unit, between two ordinary units, x start-code widths x chunkings
	// {1, 3, whole}: e.g. "00 01 00 01" (zeros separated by 01 are not consecutive)
	alpha := []byte{0x00, 0x01, 0x02, 0x03, 0x80}
	maxBody := 5
	if !quick {
		maxBody = 6
	}
	var bodies [][]byte
	var rec func(cur []byte)
	rec = func(cur []byte) {
		if len(cur) > 0 {
			bodies = append(bodies, append([]byte{}, cur...))
		}
		if len(cur) == maxBody {
			return
		}
		for _, b := range alpha {
			rec(append(cur, b))
		}
	}
	rec(nil)
	smallChunk := []c34Chunking{chunkings[0], chunkings[2], chunkings[6]}
	nSmall := int64(0)
	vkit.Parallel(len(bodies), func(i int) {
		for _, cd := range []struct {
			codec string
			hdr   []byte
			typ   string
			other c34Unit
		}{{"h264", []byte{0x41}, "nonIDR", other264}, {"h265", []byte{0x02, 0x01}, "TRAIL", other265}} {
			u := c34Unit{Type: cd.typ, Shape: "small-alphabet", Data: append(append([]byte{}, cd.hdr...), bodies[i]...)}
			// the H.264 header byte 0x41 followed by the body, the H.265 header 02 01 followed by the body
			if !c34Clean(u.Data) {
				continue
			}
			atomic.AddInt64(&nSmall, 1)
			for w := 3; w <= 4; w++ {
				for _, ch := range smallChunk {
					c34Eval(c, cd.codec, []c34Unit{cd.other, u, cd.other}, []int{4, w, 7 - w}, ch, true)
				}
			}
		}
	})
	c.Set("small_alphabet_bodies_in_domain", atomic.LoadInt64(&nSmall))
	c.Set("cases_outside_domain_skipped", atomic.LoadInt64(&c34Skipped))
	if n := atomic.LoadInt64(&c34Skipped); n != 0 {
		vkit.Fatalf(t, "%d generated cases are outside the domain of the statement (harness error)", n)
	}
}
